"""C04 -- the centre / angle computation of Arc._parameterize, proved as a chain of small steps
with assert-then-assume cuts at the intermediate assignments of the REAL function.

The arc is given in the frame the SVG notes use: midpoint M, half chord zp = (x1p, y1p) in the
rotated frame, rot = (cos phi, sin phi); start = M + rot*zp, end = M - rot*zp.  Cases:
  exact    an ellipse with the given radii fits with room to spare (Lambda < 1/(1+1e-8)):
           radical = sqrt(radicand) > 0
  fitting  no ellipse fits or it fits exactly (Lambda >= 1): radii scaled so that Lambda' = 1,
           radical = 0, half ellipse
(the band 0 < radicand <= 1e-8, where the code deliberately rounds the centre onto the chord, is
the approximate case and stays with the bounded stand-in).
Postcondition proved: centre + rot*(rx cos(theta), ry sin(theta)) == start, the same at
theta+delta == end, delta has the sign selected by sweep, |delta| > 180 iff large_arc (exact),
|delta| == 180 (fitting)."""
from pyvc.dsl import contract
from pyvc import ops

Q = 'path.Arc._parameterize'


def _run(c, fa, fs, case):
    M = c.cplx('M')
    x1, y1 = c.real('x1p'), c.real('y1p')
    rotation = c.real('rotation')
    co, si = c.cos_sin_deg(rotation)
    rot = ops.cx(co, si)
    zp = ops.cx(x1, y1)
    nz = c.assumed(ops.ne(zp, 0))
    S, E = M + rot * zp, M - rot * zp
    rx0, ry0 = c.real('rx'), c.real('ry')
    c.assume(ops.And(ops.ne(rx0, 0), ops.ne(ry0, 0)))
    lam0 = x1 * x1 / (rx0 * rx0) + y1 * y1 / (ry0 * ry0)
    if case == 'exact':
        Hcase = c.assumed(ops.lt(lam0 * (1 + c.const('1e-8')), 1))
    else:
        Hcase = c.assumed(ops.le(1, lam0))
    sigma = -1 if fa == fs else 1
    st = {'n_u1': 0, 'n_u2': 0}
    trigfacts = c.facts_with('cos') if False else []

    def unit_rot():
        # cos^2 + sin^2 == 1 for the rotation atoms (a witness fact of this path)
        return [f for f in c.ctx.facts if 'cos' in str(f) and 'sin' in str(f)][:4]

    # ---- zp1: the half chord in the rotated frame
    def cut_zp1(v):
        c.step('cut:zp1==(x1p,y1p)', ops.eq(v, zp))
        return zp
    c.cut_at(Q, 'zp1', cut_zp1)

    # ---- after the radius correction: continue with abstract radii a, b
    def cut_tmp(v, loc):
        rxc, ryc = loc['rx'], loc['ry']
        a, b = c.real('a'), c.real('b')
        da, db = c.assumed(ops.eq(a, rxc)), c.assumed(ops.eq(b, ryc))
        st['pos'] = c.step('cut:radii-positive', ops.And(ops.lt(0, a), ops.lt(0, b)))
        T = a * a * y1 * y1 + b * b * x1 * x1
        if case == 'exact':
            st['rel'] = c.step('cut:an-ellipse-fits-with-room(Lambda\'<1/(1+1e-8))', ops.lt(T * (1 + c.const('1e-8')), a * a * b * b))
        else:
            st['rel'] = c.step('cut:radii-scaled-to-fit-exactly(Lambda\'==1)', ops.eq(T, a * a * b * b))
        st['Tpos'] = c.step('cut:tmp>0', ops.lt(0, T), using=[st['pos'], nz])
        loc['rx'], loc['ry'] = a, b
        loc['rx_sqd'], loc['ry_sqd'] = a * a, b * b
        c.set(loc['self'], 'radius', ops.cx(a, b))
        st.update(a=a, b=b, T=T)
        return T
    c.cut_at(Q, 'tmp', cut_tmp)

    # ---- radical
    def cut_radical(v):
        a, b, T = st['a'], st['b'], st['T']
        if case == 'exact':
            c.step('cut:radical>0-and-radical^2*tmp==rx^2*ry^2-tmp', ops.And(ops.lt(0, v), ops.eq(v * v * T, a * a * b * b - T)))
            R = c.real('R')
            st['Rdef'] = c.assumed(ops.And(ops.lt(0, R), ops.eq(R * R * T, a * a * b * b - T)))
        else:
            c.step('cut:radical==0', ops.eq(v, 0))
            R = 0
            st['Rdef'] = True
        st['R'] = R
        return R
    c.cut_at(Q, 'radical', cut_radical)

    # ---- centre
    def cut_center(v, loc):
        cp = loc['cp']
        want = rot * cp + M
        c.step('cut:center==rot*cp+midpoint', ops.eq(v, want))
        st['cp'] = cp
        return want
    c.cut_at(Q, 'self.center', cut_center)

    # ---- u1, u2 (second assignment each: after the clip)
    def unit_vector(name, sx, sy):
        a, b, R, T = st['a'], st['b'], st['R'], st['T']
        cp = st['cp']
        f = ops.cx((sx * x1 - ops.re(cp)) / a, (sy * y1 - ops.im(cp)) / b)
        n = c.step('cut:|%s|^2==1' % name, ops.eq(ops.norm2(f), 1), using=[st['pos'], st['rel'], st['Rdef'], st['Tpos']])
        return f, n

    def cut_u(name, sx, sy):
        def hook(v):
            st['n_' + name] += 1
            if st['n_' + name] == 1:
                return v
            f, n = unit_vector(name, sx, sy)
            c.step('cut:clip-leaves-%s-unchanged' % name, ops.eq(v, f), using=[n])
            px, py = c.real(name + 'x'), c.real(name + 'y')
            p = ops.cx(px, py)
            d = c.assumed(ops.eq(p, f))
            un = c.step('cut:%s-is-a-unit-vector' % name, ops.eq(px * px + py * py, 1), using=[n, d])
            st[name] = (p, d, un, f)
            if name == 'u2':
                after_u2()
            return p
        return hook

    def after_u2():
        # facts about the pair (u1, u2) that the branches on det_uv and the angle clauses need
        (p1, d1, un1, f1), (p2, d2, un2, f2) = st['u1'], st['u2']
        a, b, R, T = st['a'], st['b'], st['R'], st['T']
        dot, det = ops.dot(p1, p2), ops.cross(p1, p2)
        st['lagr'] = c.step('cut:(u1.u2)^2+(u1xu2)^2==1', ops.eq(dot * dot + det * det, 1), using=[un1, un2])
        if case == 'exact':
            want = 2 * sigma * R * T / (a * a * b * b)
            c.step('cut:det-of-the-defining-quotients', ops.eq(ops.cross(f1, f2), want))
            dd = c.step('cut:u1xu2==2*sigma*radical*tmp/(rx*ry)^2', ops.eq(det, want), using=[d1, d2, st['pos']])
            st['sg'] = c.step('cut:u1xu2-has-the-sign-the-flags-select', ops.lt(0, sigma * det), using=[dd, st['pos'], st['Rdef'], st['Tpos']])
        else:
            st['opp'] = c.step('cut:u2==-u1', ops.eq(p2, -p1), using=[d1, d2, st['pos']])
    c.cut_at(Q, 'u1', cut_u('u1', 1, 1))
    c.cut_at(Q, 'u2', cut_u('u2', -1, -1))

    # ---- theta: (cos, sin) of the stored angle are the components of u1
    def cut_theta(v):
        p, d, un, f = st['u1']
        ct, sn = c.cos_sin_deg(v)
        st['theta'] = c.step('cut:(cos,sin)(theta)==u1', ops.And(ops.eq(ct, ops.re(p)), ops.eq(sn, ops.im(p))))
        st['cs_theta'] = (ct, sn)
        return v
    c.cut_at(Q, 'self.theta', cut_theta)

    # ---- acosand (second assignment: after the clip): the clip is the identity
    def cut_acosand(v):
        st['n_acosand'] = st.get('n_acosand', 0) + 1
        if st['n_acosand'] == 1:
            return v
        p1, p2 = st['u1'][0], st['u2'][0]
        dot, det = ops.dot(p1, p2), ops.cross(p1, p2)
        c.step('cut:clip-leaves-u1.u2-unchanged', ops.eq(v, dot), using=[st['lagr']])
        dt = c.real('dt')
        st['dtdef'] = c.assumed(ops.eq(dt, dot))
        if case == 'exact':
            st['dtrange'] = c.step('cut:-1<u1.u2<1', ops.And(ops.lt(-1, dt), ops.lt(dt, 1)), using=[st['lagr'], st['dtdef'], st['sg']])
        else:
            st['dtrange'] = c.step('cut:u1.u2==-1', ops.eq(dt, -1), using=[st['dtdef'], st['opp'], st['u1'][2]])
        return dt
    c.cut_at(Q, 'acosand', cut_acosand)

    # ---- delta (before the +-360 adjustment): (cos, sin) are dot and det of (u1, u2); in the
    # exact case its sign is the sign the flags select and it is strictly inside (0, 180);
    # execution continues with an abstract angle D that has exactly these proved properties
    def cut_delta(v):
        from pyvc import trig, sym
        (p1, d1, un1, f1), (p2, d2, un2, f2) = st['u1'], st['u2']
        dot, det = ops.dot(p1, p2), ops.cross(p1, p2)
        cd, sd = c.cos_sin_deg(v)
        if case == 'exact':
            cs = c.step('cut:(cos,sin)(delta0)==(u1.u2,u1xu2)', ops.And(ops.eq(cd, dot), ops.eq(sd, det)),
                        using=[st['dtdef'], st['lagr'], st['sg']] + c.witness_facts(sd) + list(c.ctx.pc))
            rng = c.step('cut:0<sigma*delta0<180', ops.And(ops.lt(0, sigma * v), ops.lt(sigma * v, 180)),
                         using=[st['dtrange'], st['sg']] + c.witness_facts(v) + list(c.ctx.pc))
            D = c.real('D')
            Ddef = c.assumed(ops.eq(D, v))
            rng = c.step('cut:0<sigma*D<180', ops.And(ops.lt(0, sigma * D), ops.lt(sigma * D, 180)), using=[rng, Ddef])
            trig.register_angle(sym.div(sym.mul(D, trig.PI()), 180), cd, sd)
            st['delta0'] = cs
            st['range'] = rng
            return D
        cs = c.step('cut:(cos,sin)(delta0)==(u1.u2,u1xu2)', ops.And(ops.eq(cd, dot), ops.eq(sd, det)))
        st['delta0'] = cs
        return v
    c.cut_at(Q, 'self.delta', cut_delta)

    arc = c.new('path.Arc', S, ops.cx(rx0, ry0), rotation, fa, fs, E)
    return arc, dict(S=S, E=E, M=M, rot=rot, zp=zp, x1=x1, y1=y1, sigma=sigma), st


@contract('C04', 'path.Arc._parameterize',
          params=[{'fa': fa, 'fs': fs, 'case': case} for fa in (False, True) for fs in (False, True) for case in ('exact', 'fitting')],
          budget=120)
def parameterize_realises_the_endpoint_parameterisation(c, fa, fs, case):
    arc, p, st = _run(c, fa, fs, case)
    if c.mode == 'conc':
        return _concrete_clauses(c, arc, p, fa, fs, case)
    a, b, R = st['a'], st['b'], st['R']
    theta, delta, center = c.get(arc, 'theta'), c.get(arc, 'delta'), c.get(arc, 'center')
    p1, d1, un1, f1 = st['u1']
    p2, d2, un2, f2 = st['u2']
    rot, M, zp = p['rot'], p['M'], p['zp']
    cp = st['cp']
    # stored radius is (a, b)
    c.ensures('stored-radius', ops.eq(c.get(arc, 'radius'), ops.cx(a, b)))
    # point(0): angle theta
    ct, sn = c.cos_sin_deg(theta)
    e0 = center + rot * ops.cx(a * ct, b * sn)
    c.ensures('point(0)==start', ops.eq(e0, p['S']), using=[st['theta'], d1, st['pos']] + _rot_unit(c))
    # point(1): angle theta + delta.  w names (cos, sin)(theta + delta), which the addition
    # formulas expand over the atoms of theta and delta0
    c1, s1 = c.cos_sin_deg(theta + delta)
    w = c.cplx('w')
    wdef = c.assumed(ops.eq(w, ops.cx(c1, s1)))
    A = c.step('(cos,sin)(theta+delta)==u2', ops.eq(w, p2), using=[wdef, st['theta'], st['delta0'], un1])
    c.step('centre+rot*(rx*u2x,ry*u2y)==end:defining-quotients', ops.eq(center + rot * ops.cx(a * ops.re(f2), b * ops.im(f2)), p['E']))
    B = c.step('centre+rot*(rx*cos,ry*sin)(theta+delta)==end', ops.eq(center + rot * ops.cx(a * ops.re(w), b * ops.im(w)), p['E']),
               using=[A, d2, st['pos']])
    e1 = center + rot * ops.cx(a * c1, b * s1)
    c.ensures('point(1)==end', ops.eq(e1, p['E']), using=[B, wdef])
    # direction and extent
    if case == 'exact':
        pc = list(c.ctx.pc) if c.mode == 'sym' else []
        if fs:
            c.ensures('sweep=1:0<delta<360', ops.And(ops.lt(0, delta), ops.lt(delta, 360)), using=[st['range']] + pc)
        else:
            c.ensures('sweep=0:-360<delta<0', ops.And(ops.lt(-360, delta), ops.lt(delta, 0)), using=[st['range']] + pc)
        c.ensures('spans-more-than-180-degrees-iff-large_arc', ops.Iff(ops.lt(180, ops.absv(delta)), fa), using=[st['range']] + pc)
    else:
        c.ensures('half-ellipse:|delta|==180-with-the-sign-of-sweep', ops.eq(delta, 180 if fs else -180))


def _concrete_clauses(c, arc, p, fa, fs, case):
    """the same postcondition evaluated on the real object (replay of a counterexample: the cut
    obligations have no run-time counterpart, the final clauses do)"""
    import math
    theta, delta, center, radius = arc.theta, arc.delta, arc.center, arc.radius
    a, b = radius.real, radius.imag
    rot = p['rot']

    def at(deg):
        return center + rot * complex(a * math.cos(math.radians(deg)), b * math.sin(math.radians(deg)))
    scale = max(1.0, abs(p['S']), abs(p['E']), abs(a), abs(b))
    c.ensures('point(0)==start', abs(at(theta) - p['S']) <= 1e-7 * scale)
    c.ensures('point(1)==end', abs(at(theta + delta) - p['E']) <= 1e-7 * scale)
    if case == 'exact':
        if fs:
            c.ensures('sweep=1:0<delta<360', 0 < delta < 360)
        else:
            c.ensures('sweep=0:-360<delta<0', -360 < delta < 0)
        c.ensures('spans-more-than-180-degrees-iff-large_arc', (abs(delta) > 180) == bool(fa))
    else:
        c.ensures('half-ellipse:|delta|==180-with-the-sign-of-sweep', abs(delta - (180 if fs else -180)) <= 1e-6)


def _rot_unit(c):
    """cos^2+sin^2 == 1 facts of this path (for the rotation and angle atoms)"""
    import z3
    out = []
    for f in c.ctx.facts:
        s = str(f)
        if s.count('cos!') >= 1 and s.count('sin!') >= 1 and '== 1' in s and len(s) < 80:
            out.append(f)
    return out
