"""C06 -- the closed form of QuadraticBezier.length in generic position (|a| >= 1e-12, control
points not collinear), as a differential contract proved through cuts at the function's own
assignments:  length(t0, t1) is differentiable in t1 with derivative |B'(t1)| and vanishes for
t1 == t0.  That these two facts characterise the arc length is the fundamental theorem of
calculus (assumed mathematics, listed).  Every sqrt, log and division of the executed closed form
is shown to be defined on the way (the radicands are positive, the two logarithm arguments are
positive)."""
from pyvc.dsl import contract
from pyvc import ops
from specs import bez
from contracts.c03 import mkseg

Q = 'path.QuadraticBezier.length'


def _install(c, P, t0, t1, st):
    from pyvc import sym
    a = P[0] - 2 * P[1] + P[2]
    b = 2 * (P[1] - P[0])
    na = c.assumed(ops.le(c.const('1e-24'), ops.norm2(a)))
    ncol = c.assumed(ops.ne(ops.cross(a, b), 0))

    def q(C2, C1, C0, t):
        return C2 * t * t + C1 * t + C0

    def abstract(name, v, doc):
        x = c.real(name)
        d = c.assumed(ops.eq(x, v))
        st[name] = x
        st['def_' + name] = d
        return x

    def cut_c2(v):
        c.step('cut:c2==4|a|^2', ops.eq(v, 4 * ops.norm2(a)))
        C2 = abstract('C2', 4 * ops.norm2(a), '')
        st['C2pos'] = c.step('cut:c2>0', ops.lt(0, C2), using=[st['def_C2'], na])
        return C2
    c.cut_at(Q, 'c2', cut_c2)

    def cut_c1(v):
        c.step('cut:c1==4a.b', ops.eq(v, 4 * ops.dot(a, b)))
        return abstract('C1', 4 * ops.dot(a, b), '')
    c.cut_at(Q, 'c1', cut_c1)

    def cut_c0(v):
        c.step('cut:c0==|b|^2', ops.eq(v, ops.norm2(b)))
        C0 = abstract('C0', ops.norm2(b), '')
        C2, C1 = st['C2'], st['C1']
        e = c.step('cut:4c0c2-c1^2==16(a x b)^2', ops.eq(4 * C0 * C2 - C1 * C1, 16 * ops.cross(a, b) * ops.cross(a, b)),
                   using=[st['def_C2'], st['def_C1'], st['def_C0']])
        X = c.real('X')
        dX = c.assumed(ops.eq(X, ops.cross(a, b)))
        nz = c.step('cut:X!=0', ops.ne(X, 0), using=[dX, ncol])
        e2 = c.step('cut:4c0c2-c1^2==16X^2', ops.eq(4 * C0 * C2 - C1 * C1, 16 * X * X), using=[e, dX])
        st['disc'] = c.step('cut:discriminant-negative(4c0c2-c1^2>0)', ops.lt(0, 4 * C0 * C2 - C1 * C1), using=[e2, nz])
        # the speed squared is positive at both ends of the interval
        for nm, t in (('t1', t1), ('t0', t0)):
            e3 = c.step('cut:4c2*q(%s)==(2c2*%s+c1)^2+(4c0c2-c1^2)' % (nm, nm),
                        ops.eq(4 * C2 * q(C2, C1, C0, t), (2 * C2 * t + C1) * (2 * C2 * t + C1) + (4 * C0 * C2 - C1 * C1)))
            st['qpos_' + nm] = c.step('cut:q(%s)>0' % nm, ops.lt(0, q(C2, C1, C0, t)), using=[e3, st['disc'], st['C2pos']])
        return C0
    c.cut_at(Q, 'c0', cut_c0)

    def cut_beta(v):
        C2, C1 = st['C2'], st['C1']
        c.step('cut:beta==c1/(2c2)', ops.eq(v, C1 / (2 * C2)))
        B = c.real('B')
        st['B'] = B
        st['def_B'] = c.assumed(ops.eq(2 * C2 * B, C1))
        c.step('cut:beta-abstracted', ops.eq(B, v), using=[st['def_B'], st['C2pos']])
        return B
    c.cut_at(Q, 'beta', cut_beta)

    def cut_gamma(v):
        C2, C1, C0, B = st['C2'], st['C1'], st['C0'], st['B']
        c.step('cut:gamma==c0/c2-beta^2', ops.eq(v, C0 / C2 - B * B))
        G = c.real('G')
        st['G'] = G
        st['def_G'] = c.assumed(ops.eq(C2 * G, C0 - C2 * B * B))
        c.step('cut:gamma-abstracted', ops.eq(G, v), using=[st['def_G'], st['C2pos']])
        e = c.step('cut:4c2*(c2*gamma)==4c0c2-c1^2', ops.eq(4 * C2 * (C2 * G), 4 * C0 * C2 - C1 * C1), using=[st['def_G'], st['def_B']])
        st['Gpos'] = c.step('cut:c2*gamma>0', ops.lt(0, C2 * G), using=[e, st['disc'], st['C2pos']])
        return G
    c.cut_at(Q, 'gamma', cut_gamma)

    def mag(nm, t):
        def hook(v):
            # v is the square-root witness of q(t): v >= 0, v^2 == q(t)
            C2, C1, C0, B, G = st['C2'], st['C1'], st['C0'], st['B'], st['G']
            wf = c.witness_facts(v)
            sq = c.step('cut:|B\'(%s)|^2==q(%s)' % (nm, nm), ops.eq(v * v, q(C2, C1, C0, t)), using=wf)
            pos = c.step('cut:|B\'(%s)|>0' % nm, ops.lt(0, v), using=wf + [st['qpos_' + nm]])
            w = sym.sqrt_w(C2)
            wfw = c.witness_facts(w)
            wpos = c.step('cut:sqrt(c2)>0', ops.lt(0, w), using=wfw + [st['C2pos']])
            u = c.real('u_' + nm)
            du = c.assumed(ops.eq(u, w * (t + B)))
            # m^2 - u^2 == c2*gamma > 0, hence m > |u| and the logarithm argument u + m is positive
            e = c.step('cut:m^2-u^2==c2*gamma[%s]' % nm, ops.eq(v * v - u * u, C2 * G), using=[sq, du, st['def_B'], st['def_G']] + wfw)
            N = c.step('cut:sqrt(c2)*(%s+beta)+|B\'(%s)|>0' % (nm, nm), ops.lt(0, u + v), using=[e, st['Gpos'], pos])
            st['N_' + nm] = c.step('cut:log-argument-part-positive[%s]' % nm, ops.lt(0, w * (t + B) + v), using=[N, du])
            st['m_' + nm] = v
            st['w'] = w
            st['sq_' + nm], st['pos_' + nm], st['wpos'], st['wfw'] = sq, pos, wpos, wfw
            return v
        return hook
    c.cut_at(Q, 'dq1_mag', mag('t1', t1))
    c.cut_at(Q, 'dq0_mag', mag('t0', t0))


@contract('C06', Q, params=[{}], budget=120,
          note='differential contract: d/dt1 of the executed closed form is the speed |B\'(t1)| and the closed form vanishes for t1 == t0; '
               'that these two facts characterise the arc length is the fundamental theorem of calculus (assumed)')
def quadratic_length_closed_form_is_an_antiderivative_of_the_speed(c):
    P, seg = mkseg(c, 3)
    t0, t1 = c.real('t0'), c.real('t1')
    st = {}
    if c.mode == 'conc':
        return _concrete(c, P, seg, t0, t1)
    _install(c, P, t0, t1, st)
    s = c.callm(seg, 'length', t0, t1)
    c.ensures('the-closed-form-branch-is-taken-in-generic-position', 'm_t1' in st and 'm_t0' in st)
    if 'm_t1' not in st or 'm_t0' not in st:
        return
    m1 = st['m_t1']
    ds = c.ddt(s, t1)
    C2, C1, C0, B, G, w = st['C2'], st['C1'], st['C0'], st['B'], st['G'], st['w']
    c.ensures('d/dt1-length(t0,t1)==|B\'(t1)|', ops.eq(ds, m1),
              using=[st['sq_t1'], st['pos_t1'], st['N_t1'], st['N_t0'], st['pos_t0'], st['wpos'], st['def_B'], st['def_G'], st['C2pos']] + st['wfw'])
    c.ensures('|B\'(t1)|^2-is-the-squared-speed', ops.eq(m1 * m1, ops.norm2(bez.dbern(P, t1, 1))),
              using=[st['sq_t1'], st['def_C2'], st['def_C1'], st['def_C0']])
    c.ensures('|B\'(t1)|>=0', ops.le(0, m1), using=[st['pos_t1']])


def _concrete(c, P, seg, t0, t1):
    """run-time counterpart (replay of counter-models, float companion): central difference of the
    real length() in t1 against the speed"""
    a = P[0] - 2 * P[1] + P[2]
    b = 2 * (P[1] - P[0])
    c.assume(abs(a) >= 1e-6 and abs(ops.cross(a, b)) >= 1e-6 * abs(a) * max(abs(b), 1e-6) and abs(t0) <= 4 and abs(t1) <= 4)
    h = 1e-5
    ds = (seg.length(t0, t1 + h) - seg.length(t0, t1 - h)) / (2 * h)
    speed = abs(bez.dbern(P, t1, 1))
    sc = max(1.0, max(abs(z) for z in P))
    ok = abs(ds - speed) <= 1e-4 * sc
    c.ensures('d/dt1-length(t0,t1)==|B\'(t1)|', ok)


@contract('C06', Q, params=[{}], budget=120)
def quadratic_length_closed_form_vanishes_on_an_empty_interval(c):
    P, seg = mkseg(c, 3)
    t0 = c.real('t0')
    st = {}
    if c.mode == 'conc':
        a = P[0] - 2 * P[1] + P[2]
        c.assume(abs(a) >= 1e-6 and abs(ops.cross(a, 2 * (P[1] - P[0]))) >= 1e-6 and abs(t0) <= 4)
        return c.ensures('length(t0,t0)==0', abs(seg.length(t0, t0)) <= 1e-9 * max(1.0, max(abs(z) for z in P)))
    _install(c, P, t0, t0, st)
    s00 = c.callm(seg, 'length', t0, t0)
    c.ensures('length(t0,t0)==0', ops.eq(s00, 0))
