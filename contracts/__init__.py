"""Sidecar contracts: one module per property (c03.py ...), callee summaries in _summaries.py."""
