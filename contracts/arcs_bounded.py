"""Bounded stand-ins for the Arc clauses of C04, C06, C07, C08, C09, C10, C15 that are not (yet)
discharged deductively.  Written for floats, evaluated on the real library over seeded random
arcs (all four flag pairs, radii far too small / exactly fitting / negative, rotations that are
multiples of 90, arbitrary and outside [0,360)).  They decide within their stated bound and are
never counted as proved."""
import math
import cmath
from pyvc.dsl import contract


def rand_arc(c, tag=''):
    start, end = c.cplx(tag + 'start'), c.cplx(tag + 'end')
    rx, ry = c.real(tag + 'rx'), c.real(tag + 'ry')
    rot = c.real(tag + 'rot')
    fa, fs = c.bool(tag + 'large_arc'), c.bool(tag + 'sweep')
    c.assume(start != end and rx != 0 and ry != 0)
    sc = abs(start - end)
    c.assume(sc > 1e-9 * max(abs(start), abs(end), 1e-300))
    # radii relative to the chord: from far too small to generous; some exactly fitting
    k = abs(rx) % 7
    if k < 1:
        rx = ry = sc / 2 * (1 if rx > 0 else -1)         # circle with the chord as diameter (Lambda == 1)
    else:
        rx = math.copysign(sc * (0.05 + abs(rx) % 3), rx)
        ry = math.copysign(sc * (0.05 + abs(ry) % 3), ry)
    m = abs(rot) % 5
    if m < 1:
        rot = 90.0 * int(rot % 9 - 4)
    else:
        rot = (rot % 1000) - 400
    arc = c.new('path.Arc', start, complex(rx, ry), rot, fa, fs, end)
    return arc, dict(start=start, end=end, rx=rx, ry=ry, rot=rot, fa=fa, fs=fs, size=sc)


def on_ellipse(arc, z):
    w = (z - arc.center) * cmath.exp(-1j * math.radians(arc.rotation))
    return (w.real / arc.radius.real) ** 2 + (w.imag / arc.radius.imag) ** 2


@contract('C04', 'path.Arc._parameterize', params=[{'_bounded_only': True}])
def arc_realises_the_endpoint_parameterisation_sampled(c):
    arc, p = rand_arc(c)
    sc = p['size'] + abs(arc.radius)
    c.ensures('point(0)==start', abs(arc.point(0) - p['start']) <= 1e-7 * sc)
    c.ensures('point(1)==end', abs(arc.point(1) - p['end']) <= 1e-7 * sc)
    for k in range(0, 11):
        c.ensures('point(t)-on-the-stored-ellipse', abs(on_ellipse(arc, arc.point(k / 10.0)) - 1) <= 1e-7)
    # minimal enlargement: Lambda computed from the *given* radii
    phi = math.radians(p['rot'])
    z1 = cmath.exp(-1j * phi) * (p['start'] - p['end']) / 2
    lam = (z1.real / p['rx']) ** 2 + (z1.imag / p['ry']) ** 2
    want = (abs(p['rx']), abs(p['ry'])) if lam <= 1 else (math.sqrt(lam) * abs(p['rx']), math.sqrt(lam) * abs(p['ry']))
    c.ensures('radii-enlarged-by-exactly-the-minimal-factor-or-unchanged',
              abs(arc.radius.real - want[0]) <= 1e-9 * want[0] and abs(arc.radius.imag - want[1]) <= 1e-9 * want[1])
    c.ensures('sweep-selects-the-direction', (0 < arc.delta <= 360) if p['fs'] else (-360 <= arc.delta < 0))
    if lam < 1 - 1e-6:
        c.ensures('spans-more-than-180-degrees-iff-large_arc', (abs(arc.delta) > 180) == bool(p['fa']))
    else:
        c.ensures('half-ellipse-when-radii-had-to-be-enlarged', abs(abs(arc.delta) - 180) <= 1e-3 or lam < 1)


@contract('C04', 'path.Arc.derivative', params=[{'_bounded_only': True}])
def arc_derivative_is_the_derivative_of_point_sampled(c):
    arc, p = rand_arc(c)
    t = abs(c.real('t')) % 1.0
    h = 1e-5
    sc = abs(arc.radius) * max(abs(math.radians(arc.delta)), 1e-3)
    for n in (1, 2, 3, 4, 5):
        num = (arc.derivative(t + h, n - 1) - arc.derivative(t - h, n - 1)) / (2 * h) if n > 1 else (arc.point(t + h) - arc.point(t - h)) / (2 * h)
        k = abs(math.radians(arc.delta))
        c.ensures('derivative(t,%d)-matches-central-difference' % n, abs(arc.derivative(t, n) - num) <= 1e-4 * abs(arc.radius) * max(k, 1) ** (n + 2) + 1e-9)
    for bad in (0, -1):
        out = c.outcome(lambda: arc.derivative(t, bad))
        c.ensures('ValueError-for-n<1', out.kind == 'raise' and out.exc == 'ValueError')


@contract('C04', 'path.Arc.as_cubic_curves', params=[{'_bounded_only': True}])
def arc_approximations_start_and_end_at_the_arc_endpoints_sampled(c):
    arc, p = rand_arc(c)
    k = 1 + int(abs(c.real('k')) * 10) % 5
    for name in ('as_cubic_curves', 'as_quad_curves'):
        pieces = list(getattr(arc, name)(k))
        c.ensures(name + ':count', len(pieces) == k)
        c.ensures(name + ':starts-at-start', pieces[0].start == arc.start)
        c.ensures(name + ':ends-at-end', pieces[-1].end == arc.end)
        c.ensures(name + ':pieces-join', all(pieces[i].end == pieces[i + 1].start for i in range(k - 1)))


@contract('C09', 'path.Arc.cropped', params=[{'_bounded_only': True}])
def arc_reversed_split_cropped_sampled(c):
    arc, p = rand_arc(c)
    sc = p['size'] + abs(arc.radius)
    t0, t1 = sorted([abs(c.real('ta')) % 1.0, abs(c.real('tb')) % 1.0])
    c.assume(t1 - t0 > 1e-3)
    rev = arc.reversed()
    for k in range(0, 9):
        u = k / 8.0
        c.ensures('reversed().point(u)==point(1-u)', abs(rev.point(u) - arc.point(1 - u)) <= 1e-6 * sc)
    # keep away from the 180-degree boundary of the large_arc rule (float boundary)
    c.assume(abs(abs(arc.delta * (t1 - t0)) - 180) > 1e-6)
    cr = arc.cropped(t0, t1)
    for k in range(0, 9):
        u = k / 8.0
        c.ensures('cropped(t0,t1).point(u)==point(t0+u*(t1-t0))', abs(cr.point(u) - arc.point(t0 + u * (t1 - t0))) <= 1e-6 * sc)
    c.assume(abs(abs(arc.delta * t1) - 180) > 1e-6 and abs(abs(arc.delta * (1 - t1)) - 180) > 1e-6 and 1e-3 < t1 < 1 - 1e-3)
    a, b = arc.split(t1)
    for k in range(0, 9):
        u = k / 8.0
        c.ensures('split:left(u)==point(u*t)', abs(a.point(u) - arc.point(u * t1)) <= 1e-6 * sc)
        c.ensures('split:right(u)==point(t+u*(1-t))', abs(b.point(u) - arc.point(t1 + u * (1 - t1))) <= 1e-6 * sc)
    c.ensures('split:pieces-meet', abs(a.end - b.start) <= 1e-9 * sc)


@contract('C10', 'path.translate', params=[{'_bounded_only': True}])
def arc_translate_rotate_scale_sampled(c):
    arc, p = rand_arc(c)
    sc = p['size'] + abs(arc.radius)
    z, o = c.cplx('z'), c.cplx('o')
    degs = c.real('degs')
    s = c.real('s')
    c.assume(abs(s) > 1e-3)
    tr, ro, ro0, scd = arc.translated(z), arc.rotated(degs, o), arc.rotated(degs), arc.scaled(s, origin=o)
    w = cmath.exp(1j * math.radians(degs))
    for k in range(0, 9):
        t = k / 8.0
        pt = arc.point(t)
        c.ensures('translated(z).point(t)==point(t)+z', abs(tr.point(t) - (pt + z)) <= 1e-6 * (sc + abs(z)))
        c.ensures('rotated(degs,o).point(t)', abs(ro.point(t) - (w * (pt - o) + o)) <= 1e-6 * (sc + abs(o) + abs(pt)))
        c.ensures('rotated(degs)-about-the-centre', abs(ro0.point(t) - (w * (pt - arc.center) + arc.center)) <= 1e-6 * (sc + abs(arc.center) + abs(pt)))
        c.ensures('scaled(s,origin=o).point(t)', abs(scd.point(t) - (s * (pt - o) + o)) <= 1e-6 * (abs(s) + 1) * (sc + abs(o) + abs(pt)))
    out = c.outcome(lambda: arc.scaled(2.0, 3.0))
    c.ensures('non-uniform-scale-of-an-arc-is-refused', out.kind == 'raise')


@contract('C08', 'path.Arc.bbox', params=[{'_bounded_only': True}])
def arc_bbox_sampled(c):
    arc, p = rand_arc(c)
    xmin, xmax, ymin, ymax = arc.bbox()
    N = 720
    pts = [arc.point(k / float(N)) for k in range(N + 1)]
    sc = p['size'] + abs(arc.radius)
    xs, ys = [z.real for z in pts], [z.imag for z in pts]
    c.ensures('contains-samples', min(xs) >= xmin - 1e-7 * sc and max(xs) <= xmax + 1e-7 * sc and min(ys) >= ymin - 1e-7 * sc and max(ys) <= ymax + 1e-7 * sc)
    tol = 1e-4 * sc
    c.ensures('every-side-touched', abs(min(xs) - xmin) <= tol and abs(max(xs) - xmax) <= tol and abs(min(ys) - ymin) <= tol and abs(max(ys) - ymax) <= tol)


@contract('C08', 'path.Arc.bbox', params=[{'_bounded_only': True}])
def arc_bbox_near_full_turn_sampled(c):
    """arcs that sweep almost a full turn and start next to theta = +-180 on a rotated ellipse:
    the configuration in which the outermost candidate angles (k = +-3) carry an extreme"""
    rx, ry = 0.5 + abs(c.real('rx')) % 4, 0.5 + abs(c.real('ry')) % 4
    rot = (c.real('rot') % 1000) - 400
    ctr = c.cplx('center')
    e1, e2 = abs(c.real('e1')) % 40, abs(c.real('e2')) % 40
    sgn = 1 if c.bool('sweep') else -1
    a0 = math.copysign(180 - e1, c.real('side') or 1.0)
    d = sgn * (360 - max(e2, 0.5))
    w = cmath.exp(1j * math.radians(rot))

    def pt(a):
        return ctr + w * complex(rx * math.cos(math.radians(a)), ry * math.sin(math.radians(a)))
    start, end = pt(a0), pt(a0 + d)
    c.assume(abs(start - end) > 1e-6)
    arc = c.new('path.Arc', start, complex(rx, ry), rot, True, sgn > 0, end)
    xmin, xmax, ymin, ymax = arc.bbox()
    N = 1440
    pts = [arc.point(k / float(N)) for k in range(N + 1)]
    sc = abs(arc.radius) + 1.0
    xs, ys = [z.real for z in pts], [z.imag for z in pts]
    c.ensures('contains-samples', min(xs) >= xmin - 1e-7 * sc and max(xs) <= xmax + 1e-7 * sc and min(ys) >= ymin - 1e-7 * sc and max(ys) <= ymax + 1e-7 * sc)
    tol = 1e-4 * sc
    c.ensures('every-side-touched', abs(min(xs) - xmin) <= tol and abs(max(xs) - xmax) <= tol and abs(min(ys) - ymin) <= tol and abs(max(ys) - ymax) <= tol)


@contract('C15', 'path.Arc.unit_tangent', params=[{'_bounded_only': True}])
def arc_tangent_and_curvature_sampled(c):
    arc, p = rand_arc(c)
    t = abs(c.real('t')) % 1.0
    u = arc.unit_tangent(t)
    d = arc.derivative(t)
    c.ensures('modulus-1', abs(abs(u) - 1) <= 1e-9)
    c.ensures('unit_tangent==derivative/|derivative|', abs(u * abs(d) - d) <= 1e-9 * abs(d))
    c.ensures('normal==-i*unit_tangent', abs(arc.normal(t) + 1j * u) <= 1e-12)
    d2 = arc.derivative(t, 2)
    kap = abs(d.real * d2.imag - d.imag * d2.real) / abs(d) ** 3
    c.ensures('curvature-formula', abs(arc.curvature(t) - kap) <= 1e-6 * max(kap, 1e-12))
    if abs(arc.radius.real - arc.radius.imag) <= 1e-12 * abs(arc.radius):
        c.ensures('1/r-on-a-circular-arc', abs(arc.curvature(t) - 1 / arc.radius.real) <= 1e-6 / arc.radius.real)


@contract('C06', 'path.Arc.length', params=[{'scipy': s, '_bounded_only': True} for s in (True, False)])
def arc_length_sampled(c, scipy):
    import svgpathtools.path as sp
    arc, p = rand_arc(c)
    c.assume(max(arc.radius.real, arc.radius.imag) / min(arc.radius.real, arc.radius.imag) < 50)
    old = sp._quad_available
    sp._quad_available = scipy
    try:
        t0, t1 = sorted([abs(c.real('ta')) % 1.0, abs(c.real('tb')) % 1.0])
        L = arc.length(t0, t1)
        N = 4000
        ts = [t0 + (t1 - t0) * k / N for k in range(N + 1)]
        ch = sum(abs(arc.point(ts[k + 1]) - arc.point(ts[k])) for k in range(N))
        sc = p['size'] + abs(arc.radius)
        c.ensures('finite-and-non-negative', math.isfinite(L) and L >= 0)
        c.ensures('close-to-the-chord-sum-of-a-fine-subdivision', abs(L - ch) <= 1e-4 * max(ch, 1e-9) + 1e-9 * sc)
        tm = 0.5 * (t0 + t1)
        c.ensures('additive', abs(arc.length(t0, tm) + arc.length(tm, t1) - L) <= 1e-6 * max(L, 1e-9) + 1e-9 * sc)
        # the arc was new and has only been asked for parts so far: the whole length now, and again
        # (only with the quadrature: the chord recursion is slow, and the thorough tier's 600 samples
        # must fit into its time limit)
        if scipy:
            whole = arc.length()
            chw = sum(abs(arc.point((k + 1) / float(N)) - arc.point(k / float(N))) for k in range(N))
            c.ensures('whole-length-after-partial-queries', abs(whole - chw) <= 1e-4 * max(chw, 1e-9) + 1e-9 * sc)
            c.ensures('whole-length-asked-twice', abs(arc.length() - whole) <= 1e-9 * max(whole, 1e-9))
            c.ensures('partial-length-after-the-whole', abs(arc.length(t0, t1) - L) <= 1e-9 * max(L, 1e-9) + 1e-12 * sc)
    finally:
        sp._quad_available = old


@contract('C07', 'path.Arc.ilength', params=[{'_bounded_only': True}])
def arc_ilength_sampled(c):
    arc, p = rand_arc(c)
    c.assume(max(arc.radius.real, arc.radius.imag) / min(arc.radius.real, arc.radius.imag) < 50)
    L = arc.length()
    c.assume(L > 0)
    prev = -1.0
    for k in range(0, 5):
        s = L * k / 4.0
        out = c.outcome(lambda: arc.ilength(s))
        c.ensures('returns', out.kind == 'ok')
        if out.kind != 'ok':
            return
        t = out.value
        c.ensures('result-in-[0,1]', 0 <= t <= 1)
        c.ensures('length(0,t)==s-to-tolerance', abs(arc.length(0, t) - s) <= max(1e-9, 1e-9 * L))
        c.ensures('non-decreasing-in-s', t >= prev - 1e-9)
        prev = t


def _small(z, m):
    """the sampler draws over many magnitudes; fold a drawn complex into the square |re|,|im| < m"""
    return complex(math.fmod(z.real, m), math.fmod(z.imag, m))


@contract('C11', 'path.Arc.intersect', params=[{'other': o, '_bounded_only': True} for o in ('L', 'Q', 'C')])
def arc_reported_pairs_are_real_sampled(c, other):
    """bounded stand-in (arcs are outside the deductive part of C11): every pair an Arc reports
    with a Line / QuadraticBezier / CubicBezier has both parameters in [0,1] and the two points
    coincide; the other operand order gives the transposed pairs"""
    import svgpathtools.path as sp
    k = [1.0, 1.0, 100.0, 1000.0, 0.01][int(abs(c.real('size')) * 10) % 5]      # the statement has no preferred size
    rx, ry = k * (1 + abs(c.real('rx')) % 9), k * (1 + abs(c.real('ry')) % 9)
    rot = [0.0, 0.0, 30.0, 77.0, 90.0, -45.0][int(abs(c.real('rot')) * 10) % 6]
    ctr = k * _small(c.cplx('center'), 100)
    ctr += k * [0, 0, 0, 1e3, 1e4][int(abs(c.real('offset')) * 10) % 5] * cmath.exp(1j * c.real('offset_dir') * 100)   # nor a preferred place
    a0 = (c.real('a0') * 100) % 360 - 180
    d = (20 + abs(c.real('d')) * 100 % 320) * (1 if c.bool('sweep') else -1)
    w = cmath.exp(1j * math.radians(rot))

    def pt(a):
        return ctr + w * complex(rx * math.cos(math.radians(a)), ry * math.sin(math.radians(a)))
    s, e = pt(a0), pt(a0 + d)
    c.assume(abs(s - e) > 1e-3 * k)
    arc = sp.Arc(s, complex(rx, ry), rot, abs(d) > 180, d > 0, e)
    n = {'L': 2, 'Q': 3, 'C': 4}[other]
    P = [ctr + 1.5 * (rx + ry) * _small(c.cplx('p%d' % i), 1) for i in range(n)]
    c.assume(len(set(P)) == n)
    seg = {2: sp.Line, 3: sp.QuadraticBezier, 4: sp.CubicBezier}[n](*P)
    r1 = list(arc.intersect(seg))
    r2 = list(seg.intersect(arc))
    size = rx + ry + max(abs(z - ctr) for z in P)
    for (t1, t2) in r1:
        c.ensures('parameters-in-[0,1]', 0 <= t1 <= 1 and 0 <= t2 <= 1)
        c.ensures('points-coincide', abs(arc.point(t1) - seg.point(t2)) <= 1e-6 * size)
    for (t2, t1) in r2:
        c.ensures('other-order:parameters-in-[0,1]', 0 <= t1 <= 1 and 0 <= t2 <= 1)
        c.ensures('other-order:points-coincide', abs(arc.point(t1) - seg.point(t2)) <= 1e-6 * size)
    c.ensures('both-orders-report-the-same-number', len(r1) == len(r2))


@contract('C14', 'path.Path.area', params=[{'shape': s, '_bounded_only': True} for s in ('arc+chord', 'two-arcs', 'arc+two-lines')])
def area_with_arcs_is_green_within_the_chord_approximation_sampled(c, shape):
    """bounded stand-in (arcs are outside the deductive part of C14): a closed path containing
    arcs has area() equal to the exact signed area -- the elliptical segment rx*ry/2*(d - sin d)
    of each arc plus the polygon of the end points -- within the inscribed-polygon deficiency
    bound of the chord length used; the same after a translation"""
    import svgpathtools.path as sp
    rx, ry = 1 + abs(c.real('rx')) % 2, 1 + abs(c.real('ry')) % 2
    rot = [0.0, 30.0, 77.0, 90.0, -45.0][int(abs(c.real('rot')) * 10) % 5]
    ctr = _small(c.cplx('center'), 10)
    a0 = (c.real('a0') * 100) % 360 - 180
    d = (20 + abs(c.real('d')) * 100 % 320) * (1 if c.bool('sweep') else -1)
    w = cmath.exp(1j * math.radians(rot))

    def pt(a):
        return ctr + w * complex(rx * math.cos(math.radians(a)), ry * math.sin(math.radians(a)))

    def seg_area(dd):
        return rx * ry / 2 * (math.radians(dd) - math.sin(math.radians(dd)))

    def poly(zs):
        return sum((zs[i].real * zs[(i + 1) % len(zs)].imag - zs[(i + 1) % len(zs)].real * zs[i].imag) for i in range(len(zs))) / 2
    s, e = pt(a0), pt(a0 + d)
    c.assume(abs(s - e) > 1e-2)
    arc = sp.Arc(s, complex(rx, ry), rot, abs(d) > 180, d > 0, e)
    if shape == 'arc+chord':
        path, exact = sp.Path(arc, sp.Line(e, s)), seg_area(d)
    elif shape == 'two-arcs':
        d2 = (360 - abs(d)) * (1 if d > 0 else -1)        # the rest of the ellipse, same direction
        arc2 = sp.Arc(e, complex(rx, ry), rot, abs(d2) > 180, d2 > 0, s)
        path, exact = sp.Path(arc, arc2), seg_area(d) + seg_area(d2)
    else:
        q = ctr + _small(c.cplx('q'), 4)
        path, exact = sp.Path(arc, sp.Line(e, q), sp.Line(q, s)), seg_area(d) + poly([s, e, q])
    h = 0.02
    L = sum(x.length() for x in path if isinstance(x, sp.Arc))
    kmax = max(rx, ry) / min(rx, ry) ** 2
    tol = 2 * L * (3 * h) ** 2 * kmax / 12 + 1e-9
    a = path.area(chord_length=h)
    c.ensures('area==exact-signed-area-within-the-chord-bound', abs(a - exact) <= tol)
    z = _small(c.cplx('z'), 50)
    c.ensures('translated:area-unchanged-within-the-chord-bound', abs(path.translated(z).area(chord_length=h) - exact) <= tol)
    c.ensures('reversed:area-changes-sign', abs(path.reversed().area(chord_length=h) + exact) <= tol)


@contract('C12', 'path.Arc.intersect', params=[{'other': o, '_bounded_only': True} for o in ('L', 'Q', 'C')])
def arc_transversal_crossing_is_reported_once_sampled(c, other):
    """bounded stand-in (arcs are outside the deductive part of C12): a short Line / Quadratic /
    Cubic built to pass through a point strictly inside an arc, at 40..140 degrees to the arc's
    tangent and shorter than any chord of the ellipse in that direction, is reported to cross the
    arc there - exactly one pair within 1e-4 of the true parameters, in both operand orders"""
    import svgpathtools.path as sp
    k = [1.0, 1.0, 100.0, 1000.0, 0.01][int(abs(c.real('size')) * 10) % 5]      # the statement has no preferred size
    rx, ry = k * (1 + abs(c.real('rx')) % 2), k * (1 + abs(c.real('ry')) % 2)
    rot = [0.0, 0.0, 30.0, 77.0, 90.0, -45.0][int(abs(c.real('rot')) * 10) % 6]
    ctr = k * _small(c.cplx('center'), 10)
    ctr += k * [0, 0, 0, 1e3, 1e4][int(abs(c.real('offset')) * 10) % 5] * cmath.exp(1j * c.real('offset_dir') * 100)   # nor a preferred place
    a0 = (c.real('a0') * 100) % 360 - 180
    d = (20 + abs(c.real('d')) * 100 % 320) * (1 if c.bool('sweep') else -1)
    w = cmath.exp(1j * math.radians(rot))

    def pt(a):
        return ctr + w * complex(rx * math.cos(math.radians(a)), ry * math.sin(math.radians(a)))
    s, e = pt(a0), pt(a0 + d)
    c.assume(abs(s - e) > 1e-2 * k)
    arc = sp.Arc(s, complex(rx, ry), rot, abs(d) > 180, d > 0, e)
    t = 0.1 + 0.8 * (abs(c.real('t')) % 1)
    a = a0 + d * t
    p = pt(a)
    tang = w * complex(-rx * math.sin(math.radians(a)), ry * math.cos(math.radians(a))) * (1 if d > 0 else -1)
    tang /= abs(tang)
    dirn = tang * cmath.exp(1j * math.radians(40 + 100 * (abs(c.real('ang')) % 1)))
    h1, h2 = k * (0.05 + 0.1 * (abs(c.real('h1')) % 1)), k * (0.05 + 0.1 * (abs(c.real('h2')) % 1))   # chords here are >= 0.42 k long
    if other == 'L':
        axis = int(abs(c.real('axis')) * 10) % 4          # half of the lines are EXACTLY vertical / horizontal
        if axis >= 2:
            dirn = (1j if axis == 2 else 1) * (1 if c.bool('forward') else -1)
            ang = abs(math.degrees(cmath.phase(dirn / tang)))
            c.assume(40 <= ang <= 140)
            a_, b_ = p - dirn * h1, p + dirn * h2
            if axis == 2:
                a_, b_ = complex(p.real, a_.imag), complex(p.real, b_.imag)
            else:
                a_, b_ = complex(a_.real, p.imag), complex(b_.real, p.imag)
            seg, u = sp.Line(a_, b_), h1 / (h1 + h2)
        else:
            seg, u = sp.Line(p - dirn * h1, p + dirn * h2), h1 / (h1 + h2)
    else:
        perp = 1j * dirn
        P0 = p - dirn * h1 + perp * 0.3 * h1 * (abs(c.real('e1')) % 1)
        Pn = p + dirn * h2 - perp * 0.3 * h2 * (abs(c.real('e2')) % 1)
        u = 0.5
        if other == 'Q':
            seg = sp.QuadraticBezier(P0, (4 * p - P0 - Pn) / 2, Pn)
        else:
            P1 = P0 + (Pn - P0) / 3 + perp * 0.1 * h1 * (abs(c.real('e3')) % 1)
            seg = sp.CubicBezier(P0, P1, (8 * p - P0 - 3 * P1 - Pn) / 3, Pn)
    c.assume(abs(arc.point(t) - p) <= 1e-9 * (k * 20 + abs(ctr)) and abs(seg.point(u) - p) <= 1e-9 * (k * 20 + abs(ctr)))     # the construction is what it claims
    near = [(t1, t2) for (t1, t2) in arc.intersect(seg) if abs(t1 - t) <= 1e-4 and abs(t2 - u) <= 1e-4]
    c.ensures('arc.intersect(seg):the-crossing-is-reported', len(near) >= 1)
    c.ensures('arc.intersect(seg):reported-once', len(near) <= 1)
    near = [(t2, t1) for (t2, t1) in seg.intersect(arc) if abs(t1 - t) <= 1e-4 and abs(t2 - u) <= 1e-4]
    c.ensures('seg.intersect(arc):the-crossing-is-reported', len(near) >= 1)
    c.ensures('seg.intersect(arc):reported-once', len(near) <= 1)


@contract('C14', 'path.path_encloses_pt', params=[{'shape': s, '_bounded_only': True} for s in ('polygon', 'ellipse', 'arc+chord')])
def path_encloses_pt_is_even_odd_enclosure_sampled(c, shape):
    """bounded stand-in for the enclosure clause of C14 on whole concrete paths (the deductive
    contract is relative to what Path.intersect reports): a convex polygon, an ellipse made of
    two arcs, an arc closed by its chord - each with an inside test of its own.  The point is
    well inside or well outside, the outside point far away, and the probe segment stays away
    from every joint (the statement's precondition)."""
    import svgpathtools.path as sp
    k = [1.0, 1.0, 50.0, 0.02][int(abs(c.real('size')) * 10) % 4]
    ctr = k * _small(c.cplx('center'), 10)
    # enclosure does not depend on where the drawing sits: a third of the samples lie 1e5 / 1e6 sizes from the origin
    ctr += k * [0, 0, 0, 0, 1e5, 1e6][int(abs(c.real('offset')) * 10) % 6] * cmath.exp(1j * c.real('offset_dir') * 100)
    if shape == 'polygon':
        n = 3 + int(abs(c.real('n')) * 10) % 5
        gaps = [20 + (abs(c.real('a%d' % i)) * 1234.567) % 100 for i in range(n)]
        angs = [sum(gaps[:i + 1]) * 360 / sum(gaps) for i in range(n)]
        c.assume(all((angs[(i + 1) % n] - angs[i]) % 360 < 170 for i in range(n)))      # the centre is strictly inside
        r = k * (1 + abs(c.real('r') * 3.3) % 3)
        V = [ctr + r * cmath.exp(1j * math.radians(a)) for a in angs]
        if c.bool('clockwise'):
            V = V[::-1]
        path = sp.Path(*[sp.Line(V[i], V[(i + 1) % n]) for i in range(n)])
        joints = V
        orient = 1 if not c.bool('clockwise') else -1

        def depth(z):          # > 0 inside: the smallest signed distance to the edge lines
            return min(orient * ((V[(i + 1) % n] - V[i]).conjugate() * (z - V[i])).imag / abs(V[(i + 1) % n] - V[i]) for i in range(n))
        size = r
    else:
        rx, ry = k * (1 + abs(c.real('rx') * 3.3) % 2), k * (1 + abs(c.real('ry') * 3.3) % 2)
        rot = [0.0, 0.0, 30.0, 77.0, 90.0, -45.0][int(abs(c.real('rot')) * 10) % 6]
        w = cmath.exp(1j * math.radians(rot))
        a0 = (c.real('a0') * 100) % 360 - 180
        sgn = 1 if c.bool('sweep') else -1

        def pt(a):
            return ctr + w * complex(rx * math.cos(math.radians(a)), ry * math.sin(math.radians(a)))

        def ell(z):            # > 0 inside the ellipse, roughly the distance to it
            u = (z - ctr) / w
            return (1 - math.hypot(u.real / rx, u.imag / ry)) * min(rx, ry)
        if shape == 'ellipse':
            d = sgn * (60 + abs(c.real('d')) * 100 % 240)
            d2 = sgn * (360 - abs(d))
            s, e = pt(a0), pt(a0 + d)
            path = sp.Path(sp.Arc(s, complex(rx, ry), rot, abs(d) > 180, d > 0, e),
                           sp.Arc(e, complex(rx, ry), rot, abs(d2) > 180, d2 > 0, s))
            depth = ell
        else:
            d = sgn * (60 + abs(c.real('d')) * 100 % 270)
            s, e = pt(a0), pt(a0 + d)
            path = sp.Path(sp.Arc(s, complex(rx, ry), rot, abs(d) > 180, d > 0, e), sp.Line(e, s))
            # inside = inside the ellipse and on the arc's side of the chord
            mid = pt(a0 + d / 2)
            side = 1 if ((e - s).conjugate() * (mid - s)).imag > 0 else -1

            def depth(z):
                return min(ell(z), side * ((e - s).conjugate() * (z - s)).imag / abs(e - s))
        joints = [s, e]
        size = max(rx, ry)
    p = ctr + size * 1.6 * _small(c.cplx('pt') * 777.7, 1)
    opt = ctr + size * (6 + abs(c.real('far')) % 3) * cmath.exp(1j * c.real('dir') * 100)
    c.assume(abs(depth(p)) > 0.05 * size)
    c.assume(depth(opt) < -size)
    probe = opt - p
    for j in joints:           # the probe passes every joint at a distance
        u = ((j - p) * probe.conjugate()).real / abs(probe) ** 2
        c.assume(abs(p + min(1, max(0, u)) * probe - j) > 0.05 * size)
    if shape != 'polygon':     # and is not tangent to the ellipse: a chord through the interior or a clear miss
        m = min(ell(p + (i / 400.0) * probe) for i in range(401))
        c.assume(abs(max(ell(p + (i / 400.0) * probe) for i in range(401))) > 0.05 * size and m < -0.05 * size)
    c.ensures('path_encloses_pt==inside', sp.path_encloses_pt(p, opt, path) == (depth(p) > 0))


@contract('C05', 'path.Path.T2t', params=[{'joined': j, '_bounded_only': True} for j in (True, False)])
def path_parameter_coherence_with_arcs_sampled(c, joined):
    """bounded stand-in (Arc segments are not in the shape family of the deductive C05
    contracts): paths of 2..5 segments of which at least one is an Arc; T inside, or exactly on a
    joint.  (k,t)=T2t(T) is in range, point(T) is segment k at t, t2T(k,t) gives T back, and
    T lies in the interval the arc-length fractions before k give."""
    import svgpathtools.path as sp
    n = 2 + int(abs(c.real('n')) * 10) % 4
    ia = int(abs(c.real('ia')) * 10) % n                     # this one is an arc
    cur = _small(c.cplx('v0') * 123.456, 10)
    segs = []
    for i in range(n):
        a = cur if joined or i == 0 else _small(c.cplx('s%d' % i) * 123.456, 10)
        b = a + _small(c.cplx('e%d' % i) * 123.456, 4)
        c.assume(abs(b - a) > 0.3)
        kind = 3 if i == ia else int(abs(c.real('k%d' % i)) * 10) % 4
        if kind == 0:
            segs.append(sp.Line(a, b))
        elif kind == 1:
            segs.append(sp.QuadraticBezier(a, (a + b) / 2 + 0.4j * (b - a), b))
        elif kind == 2:
            segs.append(sp.CubicBezier(a, a + (b - a) * (0.3 + 0.3j), b - (b - a) * (0.3 - 0.2j), b))
        else:
            r = abs(b - a) * (0.6 + abs(c.real('r%d' % i) * 3.3) % 2)
            segs.append(sp.Arc(a, complex(r, r * (0.5 + abs(c.real('q%d' % i) * 3.3) % 1)),
                               [0.0, 30.0, -45.0, 77.0][int(abs(c.real('rot%d' % i)) * 10) % 4], c.bool('fa%d' % i), c.bool('fs%d' % i), b))
        cur = b
    path = sp.Path(*segs)
    lens = [s.length() for s in segs]
    L = sum(lens)
    S = [sum(lens[:i]) / L for i in range(n + 1)]
    if c.bool('on_joint'):
        j = 1 + int(abs(c.real('j')) * 10) % (n - 1)
        T = path.t2T(j, 0) if c.bool('as_start_of_next') else path.t2T(j - 1, 1)
    else:
        T = abs(c.real('T') * 7.77) % 1
    k, t = path.T2t(T)
    c.ensures('index-and-parameter-in-range', 0 <= k < n and 0 <= t <= 1 + 1e-12)
    c.ensures('point(T)==segment[k].point(t)', abs(path.point(T) - segs[k].point(t)) <= 1e-9 * (1 + L))
    c.ensures('t2T(k,t)==T', abs(path.t2T(k, t) - T) <= 1e-9)
    c.ensures('T-lies-in-the-interval-of-segment-k', S[k] - 1e-9 <= T <= S[k + 1] + 1e-9)
    c.ensures('S(k)+F(k)*t==T', abs(S[k] + (S[k + 1] - S[k]) * t - T) <= 1e-9)


def _arc_through(c, tag, p, circular, k):
    """an arc that passes through p strictly inside its parameter range; returns (arc, parameter at
    p, unit tangent at p)"""
    import svgpathtools.path as sp
    rx = k * (1 + abs(c.real(tag + 'rx') * 3.3) % 2)
    ry = rx if circular else k * (1 + abs(c.real(tag + 'ry') * 3.3) % 2)
    rot = 0.0 if circular else [0.0, 30.0, 77.0, -45.0, 90.0][int(abs(c.real(tag + 'rot')) * 10) % 5]
    w = cmath.exp(1j * math.radians(rot))
    a = (c.real(tag + 'a') * 100) % 360 - 180
    ctr = p - w * complex(rx * math.cos(math.radians(a)), ry * math.sin(math.radians(a)))
    d = (40 + abs(c.real(tag + 'd')) * 100 % 260) * (1 if c.bool(tag + 'sweep') else -1)
    f = 0.2 + 0.6 * (abs(c.real(tag + 'f') * 3.3) % 1)
    a0 = a - d * f

    def pt(x):
        return ctr + w * complex(rx * math.cos(math.radians(x)), ry * math.sin(math.radians(x)))
    arc = sp.Arc(pt(a0), complex(rx, ry), rot, abs(d) > 180, d > 0, pt(a0 + d))
    tang = w * complex(-rx * math.sin(math.radians(a)), ry * math.cos(math.radians(a))) * (1 if d > 0 else -1)
    return arc, f, tang / abs(tang)


@contract('C12', 'path.Arc.intersect', params=[{'circular': True, '_bounded_only': True}])
def arc_arc_transversal_crossing_is_reported_once_sampled(c, circular):
    """bounded stand-in: two arcs built to pass through a common point strictly inside both, their
    tangents there 30..150 degrees apart.  Circular arcs only (the circle-circle branch of
    Arc.intersect).  Elliptical arcs go through bezier_intersections with Arc operands: in a probe
    of 415 constructed crossings 24 were reported twice and 2 missed, and single calls take
    minutes, so that branch is neither claimed nor sampled."""
    k = [1.0, 1.0, 100.0, 0.01][int(abs(c.real('size')) * 10) % 4]
    p = k * _small(c.cplx('p') * 123.456, 10)
    A, fa, ta = _arc_through(c, 'A.', p, circular, k)
    B, fb, tb = _arc_through(c, 'B.', p, circular, k)
    ang = abs(math.degrees(cmath.phase(tb / ta)))
    c.assume(30 < ang < 150)
    c.assume(abs(A.point(fa) - p) <= 1e-9 * k * 20 and abs(B.point(fb) - p) <= 1e-9 * k * 20)
    near = [(x, y) for (x, y) in A.intersect(B) if abs(x - fa) <= 1e-4 and abs(y - fb) <= 1e-4]
    c.ensures('the-crossing-is-reported', len(near) >= 1)
    c.ensures('reported-once', len(near) <= 1)


@contract('C11', 'path.Arc.intersect', params=[{'circular': True, '_bounded_only': True}])
def arc_arc_reported_pairs_are_real_sampled(c, circular):
    """bounded stand-in: whatever two crossing arcs report has parameters in [0,1] and coinciding
    points (1e-3 of the size, the tolerance C11 gives for arcs).  A raise is not a reported pair."""
    k = [1.0, 1.0, 100.0, 0.01][int(abs(c.real('size')) * 10) % 4]
    p = k * _small(c.cplx('p') * 123.456, 10)
    A, fa, ta = _arc_through(c, 'A.', p, circular, k)
    B, fb, tb = _arc_through(c, 'B.', p, circular, k)
    c.assume(A != B)
    try:
        r = list(A.intersect(B))
    except Exception:
        c.assume(False)
    for (x, y) in r:
        c.ensures('parameters-in-[0,1]', 0 <= x <= 1 and 0 <= y <= 1)
        c.ensures('points-coincide', abs(A.point(x) - B.point(y)) <= 1e-3 * 6 * k)


@contract('C11', 'path.Arc.intersect', params=[{'end': e, '_bounded_only': True} for e in ('start', 'end')])
def arc_line_crossing_next_to_a_line_end_far_from_the_origin_sampled(c, end):
    """bounded stand-in: an unrotated elliptical arc (the algebraic branch of Arc.intersect, which
    maps points back to parameters with Arc.point_to_t / Line.point_to_t) crossed by a line whose
    end lies 2e-3 .. 1e-2 sizes beyond the crossing, the whole drawing up to 1e6 sizes away from
    the origin.  Every reported pair, in both operand orders, has coinciding points (1e-3 of the
    size, C11's tolerance for arcs) - a parameter snapped to the line's end would not."""
    import svgpathtools.path as sp
    k = [1.0, 1.0, 50.0, 0.02][int(abs(c.real('size')) * 10) % 4]
    off = k * [0, 1e3, 1e4, 1e5, 1e6][int(abs(c.real('offset')) * 10) % 5] * cmath.exp(1j * c.real('offset_dir') * 100)
    ctr = k * _small(c.cplx('center'), 10) + off
    rx, ry = k * (1 + abs(c.real('rx') * 3.3) % 2), k * (1 + abs(c.real('ry') * 3.3) % 2)
    a0 = (c.real('a0') * 100) % 360 - 180
    d = (40 + abs(c.real('d')) * 100 % 280) * (1 if c.bool('sweep') else -1)

    def pt(a):
        return ctr + complex(rx * math.cos(math.radians(a)), ry * math.sin(math.radians(a)))
    arc = sp.Arc(pt(a0), complex(rx, ry), 0, abs(d) > 180, d > 0, pt(a0 + d))
    t = 0.15 + 0.7 * (abs(c.real('t') * 3.3) % 1)
    a = a0 + d * t
    p = pt(a)
    tang = complex(-rx * math.sin(math.radians(a)), ry * math.cos(math.radians(a)))
    dirn = tang / abs(tang) * cmath.exp(1j * math.radians(50 + 80 * (abs(c.real('ang') * 3.3) % 1)))
    near = k * (2e-3 + 8e-3 * (abs(c.real('near') * 3.3) % 1))
    far = k * (0.05 + 0.1 * (abs(c.real('far') * 3.3) % 1))
    line = sp.Line(p - dirn * near, p + dirn * far) if end == 'start' else sp.Line(p - dirn * far, p + dirn * near)
    size = max(rx, ry)
    r1, r2 = list(arc.intersect(line)), list(line.intersect(arc))
    c.ensures('the-crossing-is-reported', len(r1) >= 1 and len(r2) >= 1)
    for (t1, t2) in r1:
        c.ensures('arc.intersect(line):points-coincide', 0 <= t1 <= 1 and 0 <= t2 <= 1 and abs(arc.point(t1) - line.point(t2)) <= 1e-3 * size)
    for (t2, t1) in r2:
        c.ensures('line.intersect(arc):points-coincide', 0 <= t1 <= 1 and 0 <= t2 <= 1 and abs(arc.point(t1) - line.point(t2)) <= 1e-3 * size)
