"""C02 -- parse_path implements the SVG path-data semantics for every command sequence.

Coupling invariant between the parser's loop state and the reference interpreter specs.svg
(written from the SVG specification).  One obligation family per command letter and per
implicit continuation: from an ARBITRARY coupled state, one iteration of the REAL loop body ends
in the state coupled with svg.step(...), appends exactly the segments the spec appends, and
raises nothing.  Induction over the length of the program gives every command sequence.
Lexing (how characters become tokens) is the bounded part (LEX, DESIGN.md 1.7)."""
from pyvc.dsl import contract
from pyvc import ops
from specs import svg

LETTERS = 'MmZzLlHhVvCcSsQqTtAa'
PRE_COMMANDS = [None, 'L', 'H', 'V', 'C', 'S', 'Q', 'T', 'A']     # what `command` can hold between iterations


def _models(c):
    """token stack and abstract segment list handed to the real loop body"""
    from pyvc import interp as I

    class TokenStack(object):
        """`elements`: the next tokens of this iteration are known, what follows is arbitrary"""
        def __init__(self, toks):
            self.toks = list(toks)          # in reading order

        def pyvc_truth(self, ip):
            if self.toks:
                return True
            raise I.Unsupported("token stack examined beyond the tokens of this step")

        def pyvc_getitem(self, ip, idx):
            if idx != -1 or not self.toks:
                raise I.Unsupported("token stack access")
            return self.toks[0]

        def pyvc_len(self, ip):
            return len(self.toks)

        def pyvc_getattr(self, ip, name):
            if name == 'pop':
                def pop(ip_, a, k):
                    if not self.toks:
                        ip_.raise_py('IndexError', 'pop from empty list')
                    return self.toks.pop(0)
                return I.Builtin('elements.pop', pop)
            raise I.Unsupported("token stack method %s" % name)

    class SegList(object):
        """`segments`: an arbitrary prefix whose last element is known when the state needs it"""
        def __init__(self, last):
            self.last = last
            self.appended = []

        def pyvc_truth(self, ip):
            return bool(self.appended) or self.last is not None

        def pyvc_getitem(self, ip, idx):
            if idx == -1:
                if self.appended:
                    return self.appended[-1]
                if self.last is None:
                    ip.raise_py('IndexError', 'list index out of range')
                return self.last
            raise I.Unsupported("segment list access")

        def pyvc_getattr(self, ip, name):
            if name == 'append':
                return I.Builtin('segments.append', lambda ip_, a, k: self.appended.append(a[0]))
            raise I.Unsupported("segment list method %s" % name)
    return TokenStack, SegList


def _arc_constructor_contract(c, made):
    """call-site contract of Arc(...) (its own obligations: C04): requires start != end and
    non-zero radii, stores what it is given"""
    def init(ip, f, args, kwargs):
        o = args[0]
        start, radius, rotation, large_arc, sweep, end = args[1:7]
        ip.ctx.oblige('Arc-constructor-precondition:start!=end-and-radii-non-zero',
                      c._h(ops.And(ops.ne(start, end), ops.ne(ops.re(radius), 0), ops.ne(ops.im(radius), 0))))
        o.attrs.update(start=start, radius=radius, rotation=rotation, large_arc=ip.truth(large_arc), sweep=ip.truth(sweep), end=end)
        made.append(o)
    c.ip.summaries['path.Arc.__init__'] = init


def _seg_matches(c, obj, spec):
    kind = spec[0]
    cls = {'Line': 'path.Line', 'Cubic': 'path.CubicBezier', 'Quad': 'path.QuadraticBezier', 'Arc': 'path.Arc'}[kind]
    if not c.isinstance(obj, cls):
        return False
    g = lambda n: c.get(obj, n)
    if kind == 'Line':
        return ops.And(ops.eq(g('start'), spec[1]), ops.eq(g('end'), spec[2]))
    if kind == 'Cubic':
        return ops.And(ops.eq(g('start'), spec[1]), ops.eq(g('control1'), spec[2]), ops.eq(g('control2'), spec[3]), ops.eq(g('end'), spec[4]))
    if kind == 'Quad':
        return ops.And(ops.eq(g('start'), spec[1]), ops.eq(g('control'), spec[2]), ops.eq(g('end'), spec[3]))
    r = g('radius')
    return ops.And(ops.eq(g('start'), spec[1]), ops.eq(ops.re(r), spec[2]), ops.eq(ops.im(r), spec[3]), ops.eq(g('rotation'), spec[4]),
                   ops.Iff(g('large_arc'), spec[5]), ops.Iff(g('sweep'), spec[6]), ops.eq(g('end'), spec[7]))


def _check_post(c, letter, pre_command, pre_absolute, last_kind='none'):
    """drives one iteration and compares with the reference step (runs inside the loop rule's
    third invariant call so that it sees the post-state)"""
    TokenStack, SegList = _models(c)
    from pyvc import interp as I
    path = c.new('path.Path')
    cur, start = c.cplx('cur'), c.cplx('start')
    eff = letter if letter is not None else (pre_command if pre_absolute else pre_command.lower())
    up = eff.upper()
    last, prev = None, ('other',)
    if pre_command in ('C', 'S'):
        c2 = c.cplx('prev_c2')
        last = c.new('path.CubicBezier', c.cplx('prev_s'), c.cplx('prev_c1'), c2, cur)
        prev = ('cubic', c2)
    elif pre_command in ('Q', 'T'):
        cq = c.cplx('prev_c')
        last = c.new('path.QuadraticBezier', c.cplx('prev_s'), cq, cur)
        prev = ('quad', cq)
    made_arcs = []
    _arc_constructor_contract(c, made_arcs)
    if last is None and last_kind != 'none':
        # in a state without previous-curve information the coupling invariant says nothing about
        # the last stored segment: it is an arbitrary segment of an arbitrary class (e.g. a cubic
        # of an earlier subpath), or there is none
        z = lambda n: c.cplx('last_' + n)
        if last_kind == 'L':
            last = c.new('path.Line', z('s'), z('e'))
        elif last_kind == 'Q':
            last = c.new('path.QuadraticBezier', z('s'), z('c'), z('e'))
        elif last_kind == 'C':
            last = c.new('path.CubicBezier', z('s'), z('c1'), z('c2'), z('e'))
        else:
            c.assume(ops.ne(z('s'), z('e')))
            last = c.new('path.Arc', z('s'), ops.cx(1, 1), 0, False, True, z('e'))
    args = [c.real('a%d' % i) for i in range(svg.ARITY[up])]
    toks = ([letter] if letter is not None else []) + [I.Num(a) for a in args]
    seglist = SegList(last)
    alternatives = svg.step({'cur': cur, 'start': start, 'prev': prev}, eff, args)
    calls = [0]
    tag = '%s after %s' % (eff if letter is not None else 'implicit ' + eff, pre_command)
    if last_kind != 'none':
        tag += ' (last stored segment: %s)' % last_kind

    def compare(v):
        pcur, pstart, pcmd = v['current_pos'], v['start_pos'], v['command']
        app = seglist.appended
        closed = c.get(v['self'], '_closed')
        for k, (cond, (st, segs, cl)) in enumerate(alternatives):
            m = [len(app) == len(segs)]
            if len(app) == len(segs):
                m += [_seg_matches(c, o, s) for o, s in zip(app, segs)]
            m.append(ops.eq(pcur, st['cur']))
            m.append(ops.eq(pstart, st['start']) if pstart is not None else False)
            # previous-curve information for the next S/T lives in `command` + last segment
            kind = st['prev'][0]
            if kind == 'cubic':
                m.append(pcmd in ('C', 'S') and len(app) >= 1 and c.isinstance(app[-1], 'path.CubicBezier')
                         and ops.eq(c.get(app[-1], 'control2'), st['prev'][1]))
            elif kind == 'quad':
                m.append(pcmd in ('Q', 'T') and len(app) >= 1 and c.isinstance(app[-1], 'path.QuadraticBezier')
                         and ops.eq(c.get(app[-1], 'control'), st['prev'][1]))
            else:
                m.append(pcmd not in ('C', 'S', 'Q', 'T'))
            # implicit repetition: numbers that follow repeat the command (lineto after a moveto), in the same case
            if up == 'Z':
                m.append(pcmd is None)
            else:
                rep = 'L' if up == 'M' else up
                m.append(pcmd == rep and v['absolute'] is eff.isupper())
            if cl:
                m.append(closed is True)
            c.ensures('step(%s)==spec[case %d]' % (tag, k), ops.Implies(cond, ops.And(*m)))

    def inv(v):
        calls[0] += 1
        if calls[0] == 3:
            compare(v)
        return True

    def havoc(v):
        v['elements'] = TokenStack(toks)
        v['segments'] = seglist
        v['current_pos'] = cur
        v['start_pos'] = start
        v['command'] = pre_command
        if letter is None:
            v['absolute'] = pre_absolute
        c.set(v['self'], '_segments', seglist)
    c.loop_invariant('path.Path._parse_path', 0, inv, havoc, name='command-loop')
    out = c.outcome(lambda: c.callm(path, '_parse_path', '', cur))
    c.ensures('one-iteration-raises-nothing[%s]' % tag, out.kind == 'ok', exception=out.exc, message=out.msg)


def _last_kinds(p):
    return ['none'] if p in ('C', 'S', 'Q', 'T') else ['none', 'L', 'Q', 'C', 'A']


EXPLICIT = [{'letter': l, 'pre': p, 'last': k, '_no_bounded': True} for l in LETTERS for p in PRE_COMMANDS for k in _last_kinds(p)]
IMPLICIT = [{'pre': p, 'absolute': a, 'last': k, '_no_bounded': True} for p in PRE_COMMANDS if p is not None for a in (True, False) for k in _last_kinds(p)]


@contract('C02', 'path.Path._parse_path', params=EXPLICIT)
def explicit_command_step(c, letter, pre, last):
    _check_post(c, letter, pre, None, last)


@contract('C02', 'path.Path._parse_path', params=IMPLICIT)
def implicit_repetition_step(c, pre, absolute, last):
    _check_post(c, None, pre, absolute, last)


@contract('C02', 'path.Path._parse_path', params=[{'_no_bounded': True}])
def numbers_without_a_command_are_rejected(c):
    """after a closepath (or at the very beginning) only a letter may follow"""
    TokenStack, SegList = _models(c)
    from pyvc import interp as I
    path = c.new('path.Path')

    def havoc(v):
        v['elements'] = TokenStack([I.Num(c.real('a0'))])
        v['command'] = None
    c.loop_invariant('path.Path._parse_path', 0, lambda v: True, havoc, name='command-loop')
    out = c.outcome(lambda: c.callm(path, '_parse_path', '', c.cplx('cur')))
    c.ensures('ValueError', out.kind == 'raise' and out.exc == 'ValueError')


@contract('C02', 'path.Path._parse_path', params=[{'_no_bounded': True}])
def loop_entry_state_is_the_initial_spec_state(c):
    """before the first iteration: no command, no subpath start, no segments, pen at the
    `current_pos` argument; after the loop the segment list is returned unchanged"""
    path = c.new('path.Path')
    cur = c.cplx('cur')
    r = c.callm(path, '_parse_path', '', cur)
    c.ensures('empty-program-appends-nothing', c.length(r) == 0 and r is c.get(path, '_segments'))
    seen = {}

    def inv(v):
        if 'n' not in seen:
            seen['n'] = 1
            c.ensures('entry:command-is-None', v['command'] is None)
            c.ensures('entry:start_pos-is-None', v['start_pos'] is None)
            c.ensures('entry:pen-at-current_pos', c.py_eq(v['current_pos'], cur))
            c.ensures('entry:segments-is-the-path-own-empty-list', v['segments'] is c.get(path2, '_segments') and c.length(v['segments']) == 0)
        return True
    path2 = c.new('path.Path')
    c.loop_invariant('path.Path._parse_path', 0, inv, lambda v: v.__setitem__('elements', []), name='command-loop')
    c.callm(path2, '_parse_path', '', cur)


@contract('C02', 'path.Path.__init__', params=[{'_no_bounded': True}], covers=('parser.parse_path',))
def string_constructor_and_parse_path_delegate(c):
    got = []

    def spy(ip, f, args, kwargs):
        got.append((args, kwargs))
        seg = c.new('path.Line', c.cplx('u'), c.cplx('v'))
        ip.getattr(args[0], '_segments').append(seg)
        return ip.getattr(args[0], '_segments')
    c.ip.summaries['path.Path._parse_path'] = spy
    z = c.cplx('z')
    p = c.call('parser.parse_path', 'M 1,2 L 3,4', z)
    a, k = got[0]
    c.ensures('parse_path(d,current_pos)-parses-d-from-current_pos', a[1] == 'M 1,2 L 3,4' and c.py_eq(a[2], z) is True)
    c.ensures('start/end-taken-from-the-parsed-segments', ops.And(c.py_eq(c.get(p, 'start'), c.cplx('u')), c.py_eq(c.get(p, 'end'), c.cplx('v'))))
    p0 = c.call('parser.parse_path', 'M 1,2 L 3,4')
    c.ensures('default-current_pos-is-0', c.py_eq(got[1][0][2], 0) is True)


# ----------------------------------------------------------------------------- lexing (bounded)

def _reference_tokens(s):
    """SVG path-data lexer written from the grammar (numbers: sign? (digits [. digits?] | . digits)
    exponent?; separators: whitespace and commas; a sign or a '.' may start a new number; arc flags
    are single characters 0/1 that need no separator)"""
    import re
    num = re.compile(r'[-+]?(?:[0-9]+\.?[0-9]*|\.[0-9]+)(?:[eE][-+]?[0-9]+)?')
    out, i, cmd, argi = [], 0, None, 0
    arity = {'M': 2, 'Z': 0, 'L': 2, 'H': 1, 'V': 1, 'C': 6, 'S': 4, 'Q': 4, 'T': 2, 'A': 7}
    while i < len(s):
        ch = s[i]
        if ch in ' \t\n\r,':
            i += 1
        elif ch in 'MmZzLlHhVvCcSsQqTtAa':
            out.append(ch)
            cmd, argi = ch.upper(), 0
            i += 1
        else:
            if cmd == 'A' and argi % 7 in (3, 4) and ch in '01':
                out.append(ch)
                i += 1
            else:
                m = num.match(s, i)
                if not m:
                    return None
                out.append(m.group(0))
                i = m.end()
            argi += 1
    return out


@contract('C02', 'path.Path._tokenize_path', params=[{'family': f, '_bounded_only': True} for f in ('numbers', 'flags')])
def tokenizer_agrees_with_the_svg_grammar(c, family):
    """bounded stand-in (LEX): every string over the separator/sign/dot/exponent alphabet up to
    length 6 between two commands, and arc flags with and without separators"""
    import itertools
    path = c.new('path.Path')
    bad = []
    if family == 'numbers':
        alphabet = '01.-+e, '
        for n in range(1, 7):
            for tup in itertools.product(alphabet, repeat=n):
                mid = ''.join(tup)
                s = 'M' + mid + 'L1 2'
                ref = _reference_tokens(s)
                if ref is None or 'e' in mid and not any(x for x in ref if 'e' in x):
                    continue
                if (len(ref) - 4) != 2:        # exactly one coordinate pair for the moveto
                    continue
                got = list(path._tokenize_path(s))
                if [float(x) if x not in 'ML' else x for x in got] != [float(x) if x not in 'ML' else x for x in ref]:
                    bad.append((s, got, ref))
        c.ensures('numbers:same-tokens-as-the-grammar', not bad)
    else:
        for fa in '01':
            for fs in '01':
                for sep1 in ('', ' ', ','):
                    for sep2 in ('', ' ', ','):
                        s = 'M0,0a1,1 0 %s%s%s%s2,2' % (fa, sep1, fs, sep2)
                        ref = _reference_tokens(s)
                        got = list(path._tokenize_path(s))
                        if [float(x) if x not in 'Ma' else x for x in got] != [float(x) if x not in 'Ma' else x for x in ref]:
                            bad.append((s, got, ref))
        c.ensures('arc-flags-without-separators', not bad)
        # implicit repetition: the flags of EVERY group of seven arguments need no separator
        bad2 = []
        for reps in (2, 3):
            for flags in itertools.product('01', repeat=2 * reps):
                for sep in ('', ' '):
                    for tail in ('2,2', '.5.5', '-1-1'):
                        groups = ['1,1 0 %s%s%s%s' % (flags[2 * g], sep, flags[2 * g + 1], sep) + tail for g in range(reps)]
                        s = 'M0,0a' + ' '.join(groups)
                        ref = _reference_tokens(s)
                        try:
                            got = list(path._tokenize_path(s))
                        except Exception as e:            # the tokenizer must not give up on a legal string
                            got = ['raised %s' % type(e).__name__]
                        if ref is None or len(ref) != 4 + 7 * reps:
                            continue
                        conv = lambda L: [float(x) if x not in 'Ma' else x for x in L]
                        try:
                            same = conv(got) == conv(ref)
                        except ValueError:
                            same = False
                        if not same:
                            bad2.append((s, got, ref))
        c.ensures('arc-flags-without-separators-in-every-repeated-group', not bad2)
        bad = bad + bad2
    c.bad_examples = bad[:3]


@contract('C02', 'path.Path._parse_path', params=[{'_bounded_only': True}])
def whole_d_strings_against_the_reference_semantics_sampled(c):
    """bounded stand-in for the parser as a whole (the deductive part proves one command step at
    a time and is undecided when a change reorganises the command loop): random d-strings -
    every letter in both cases, 1..3 argument groups per letter (implicit repetition; after M/m
    the further groups are lineto's), mixed separators - are parsed by the real parser and
    interpreted by the reference semantics (specs/svg.py); numbers are small halves, so every
    coordinate is computed exactly and the segments must be equal"""
    import random
    import svgpathtools.path as sp
    from specs import svg
    rng = random.Random(int(abs(c.real('seed')) * 1e9) % (2 ** 31))

    def num():
        return rng.randint(-12, 12) / 2.0

    def fmt(x):
        s = repr(x)
        if s.endswith('.0') and rng.random() < 0.7:
            s = s[:-2]
        return s
    letters = 'MmLlHhVvCcSsQqTtAaZz'
    prog = [(rng.choice('Mm'), rng.randint(1, 3))]
    for _ in range(rng.randint(2, 8)):
        L = rng.choice(letters)
        prog.append((L, 1 if L in 'Zz' else rng.randint(1, 3)))
    text, state, want = [], {'cur': 0j, 'start': 0j, 'prev': ('other',)}, []
    for (L, groups) in prog:
        text.append(L)
        for g in range(groups):
            eff = L if g == 0 or L not in 'Mm' else ('L' if L == 'M' else 'l')
            n = svg.ARITY[eff.upper()]
            args = [num() for _ in range(n)]
            if eff.upper() == 'A':
                args[0], args[1] = abs(args[0]) + 0.5, abs(args[1]) + 0.5
                args[3], args[4] = float(rng.randint(0, 1)), float(rng.randint(0, 1))
            for i, a in enumerate(args):
                tok = fmt(a) if not (eff.upper() == 'A' and i in (3, 4)) else str(int(a))
                text.append((' ' if (tok[0] != '-' or rng.random() < 0.5) and (i or g or rng.random() < 0.5) else '') + tok + (',' if rng.random() < 0.3 and i < n - 1 else ''))
            alts = [o for cond, o in svg.step(state, eff, args) if cond]
            state, app, _ = alts[0]
            want += app
    d = ''.join(text)
    out = c.outcome(lambda: sp.Path(d))
    c.ensures('parses', out.kind == 'ok')
    if out.kind != 'ok':
        c.bad_examples = [d]
        return
    got = []
    for s in out.value:
        if isinstance(s, sp.Line):
            got.append(('Line', s.start, s.end))
        elif isinstance(s, sp.QuadraticBezier):
            got.append(('Quad', s.start, s.control, s.end))
        elif isinstance(s, sp.CubicBezier):
            got.append(('Cubic', s.start, s.control1, s.control2, s.end))
        else:
            got.append(('Arc', s.start, None, None, s.rotation, bool(s.large_arc), bool(s.sweep), s.end))
    want = [w if w[0] != 'Arc' else ('Arc', w[1], None, None, w[4], bool(w[5]), bool(w[6]), w[7]) for w in want]
    ok = got == want
    if not ok:
        c.bad_examples = [d]
    c.ensures('segments-are-those-of-the-reference-semantics', ok)
