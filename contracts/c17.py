"""C17 -- SVG flattening applies shape conversion and nested transforms per the SVG spec."""
from pyvc.dsl import contract
from pyvc import ops
from contracts.c10 import affine
from contracts.c02 import _seg_matches

I3 = [[1, 0, 0], [0, 1, 0], [0, 0, 1]]


def mat_eq(A, B):
    return ops.And(*[ops.eq(A[i][j], B[i][j]) for i in range(3) for j in range(3)])


def mat_mul(A, B):
    return [[sum([A[i][k] * B[k][j] for k in range(3)][1:], A[i][0] * B[0][j]) for j in range(3)] for i in range(3)]


def spec_matrix(c, kind, v):
    """SVG 1.1 section 7.6"""
    if kind == 'matrix':
        return [[v[0], v[2], v[4]], [v[1], v[3], v[5]], [0, 0, 1]]
    if kind == 'translate':
        return [[1, 0, v[0]], [0, 1, v[1] if len(v) > 1 else 0], [0, 0, 1]]
    if kind == 'scale':
        return [[v[0], 0, 0], [0, v[1] if len(v) > 1 else v[0], 0], [0, 0, 1]]
    if kind == 'rotate':
        co, si = c.cos_sin_deg(v[0])
        R = [[co, -si, 0], [si, co, 0], [0, 0, 1]]
        if len(v) == 3:
            T = [[1, 0, v[1]], [0, 1, v[2]], [0, 0, 1]]
            Tm = [[1, 0, -v[1]], [0, 1, -v[2]], [0, 0, 1]]
            return mat_mul(mat_mul(T, R), Tm)
        return R
    co, si = c.cos_sin_deg(v[0])
    if kind == 'skewX':
        return [[1, si / co, 0], [0, 1, 0], [0, 0, 1]]
    if kind == 'skewY':
        return [[1, 0, 0], [si / co, 1, 0], [0, 0, 1]]
    raise ValueError(kind)


def run_substr(c, kind, vals, lead=''):
    """LEX cut: `values` (the numbers found in the string) is an arbitrary list of that length.
    `lead` is what separates this item from the previous one in a transform list (parse_transform
    splits on ')' and hands the separator on as a prefix): blanks and/or one comma"""
    if c.mode == 'sym':
        c.cut_at('parser._parse_transform_substr', 'values', lambda v: list(vals))
        s = lead + kind + '(' + ' '.join('0' for _ in vals)
    else:
        s = lead + kind + '(' + ' '.join(repr(float(x)) for x in vals)
    return c.matrix_rows(c.call('parser._parse_transform_substr', s))


KINDS = {'matrix': [6], 'translate': [1, 2], 'scale': [1, 2], 'rotate': [1, 3], 'skewX': [1], 'skewY': [1]}


@contract('C17', 'parser._parse_transform_substr', params=[{'kind': k, 'n': n} for k, ns in KINDS.items() for n in ns], budget=120)
def transform_kind_means_what_the_spec_says(c, kind, n):
    v = [c.real('v%d' % i) for i in range(n)]
    if kind in ('skewX', 'skewY'):
        co, si = c.cos_sin_deg(v[0])
        c.assume(ops.ne(co, 0))
    M = run_substr(c, kind, v)
    c.ensures('%s(%d values)==SVG-matrix' % (kind, n), mat_eq(M, spec_matrix(c, kind, v)))


LEADS = {'blank': ' ', 'comma': ',', 'comma-blank': ', ', 'blank-comma-blank': ' , ', 'newline': '\n  '}


@contract('C17', 'parser._parse_transform_substr', params=[{'kind': k, 'lead': l, '_no_bounded': False} for k in KINDS for l in LEADS], budget=120)
def transform_kind_after_a_list_separator(c, kind, lead):
    """an item that is not the first of a transform list arrives with the separator in front
    (the SVG grammar allows blanks and/or a comma between transforms): same matrix"""
    n = KINDS[kind][-1]
    v = [c.real('v%d' % i) for i in range(n)]
    if kind in ('skewX', 'skewY'):
        co, si = c.cos_sin_deg(v[0])
        c.assume(ops.ne(co, 0))
    M = run_substr(c, kind, v, LEADS[lead])
    c.ensures('%s-after-%s==SVG-matrix' % (kind, lead), mat_eq(M, spec_matrix(c, kind, v)))


@contract('C17', 'parser._parse_transform_substr',
          params=[{'kind': k, 'n': n} for k, ns in KINDS.items() for n in range(0, 8) if n not in ns and n <= 7 and (n in (0, 4, 7) or k == 'rotate' and n == 2)])
def wrong_number_of_values_gives_identity(c, kind, n):
    v = [c.real('v%d' % i) for i in range(n)]
    M = run_substr(c, kind, v)
    c.ensures('%s(%d values)==identity' % (kind, n), mat_eq(M, I3))


@contract('C17', 'parser._parse_transform_substr', params=[{'_no_bounded': True}])
def unknown_transform_type_gives_identity(c):
    c.ensures('identity', mat_eq(c.matrix_rows(c.call('parser._parse_transform_substr', 'perspective(1 2 3')), I3))


@contract('C17', 'parser.parse_transform', params=[{'k': k, '_no_bounded': True} for k in range(0, 4)])
def transform_list_is_the_product_in_list_order(c, k):
    Ms = [[[c.real('m%d_%d%d' % (t, i, j)) for j in range(3)] for i in range(2)] + [[0, 0, 1]] for t in range(k)]
    seen = []

    def substr_contract(ip, f, args, kwargs):
        seen.append(args[0])
        return c.matrix(Ms[len(seen) - 1])
    c.ip.summaries['parser._parse_transform_substr'] = substr_contract
    s = ''.join('t%d(x)' % t for t in range(k))
    R = c.matrix_rows(c.call('parser.parse_transform', s))
    want = I3
    for M in Ms:
        want = mat_mul(want, M)
    c.ensures('each-item-parsed-once-in-order', seen == ['t%d(x' % t for t in range(k)])
    c.ensures('product-in-list-order', mat_eq(R, want))
    if k == 0:
        c.ensures('None->identity', mat_eq(c.matrix_rows(c.call('parser.parse_transform', None)), I3))
        out = c.outcome(lambda: c.call('parser.parse_transform', 5))
        c.ensures('non-string->TypeError', out.kind == 'raise' and out.exc == 'TypeError')


# ------------------------------------------------------------------------------- shapes

def _parse(c, d):
    if c.mode == 'sym':
        from contracts.c01 import _install_lex, _install_arc_stub
        _install_lex(c)
        _install_arc_stub(c)
    return list(c.items(c.call('parser.parse_path', d)))


def _check_segments(c, got, want, tag):
    if c.mode != 'sym' and len(got) == len(want) + 1 and type(got[-1]).__name__ == 'Line':
        # relative output: a closing line of rounding-error length after Z is a float effect
        sc = max(abs(got[0].start), abs(got[-1].start), 1e-300)
        if abs(got[-1].end - got[-1].start) <= 1e-12 * sc + 1e-300:
            got = got[:-1]
    c.ensures('%s:number-of-segments' % tag, len(got) == len(want))
    if len(got) == len(want):
        for i, (o, s) in enumerate(zip(got, want)):
            c.ensures('%s:segment-%d' % (tag, i), _seg_matches(c, o, s))


@contract('C17', 'svg_to_paths.rect2pathd')
def plain_rect(c):
    x, y, w, h = c.real('x'), c.real('y'), c.real('w'), c.real('h')
    c.assume(ops.And(ops.lt(0, w), ops.lt(0, h)))
    rect = {'x': c.numstr(x), 'y': c.numstr(y), 'width': c.numstr(w), 'height': c.numstr(h)}
    got = _parse(c, c.call('svg_to_paths.rect2pathd', rect))
    P = [ops.cx(x, y), ops.cx(x + w, y), ops.cx(x + w, y + h), ops.cx(x, y + h)]
    _check_segments(c, got, [('Line', P[i], P[(i + 1) % 4]) for i in range(4)], 'rect')
    got0 = _parse(c, c.call('svg_to_paths.rect2pathd', {'width': c.numstr(w), 'height': c.numstr(h)}))
    Z = [ops.cx(0, 0), ops.cx(w, 0), ops.cx(w, h), ops.cx(0, h)]
    _check_segments(c, got0, [('Line', Z[i], Z[(i + 1) % 4]) for i in range(4)], 'rect-default-x-y')


@contract('C17', 'svg_to_paths.rect2pathd', params=[{'given': g} for g in ('both', 'rx', 'ry')])
def rounded_rect(c, given):
    x, y, w, h = c.real('x'), c.real('y'), c.real('w'), c.real('h')
    rx, ry = c.real('rx'), c.real('ry')
    c.assume(ops.And(ops.lt(0, rx), ops.lt(0, ry)))
    if given != 'both':
        ry = rx = rx if given == 'rx' else ry
    # radii within the half sides (the spec clamps larger values; see rounded_rect_radii_are_clamped)
    c.assume(ops.And(ops.lt(2 * rx, w), ops.lt(2 * ry, h)))
    rect = {'x': c.numstr(x), 'y': c.numstr(y), 'width': c.numstr(w), 'height': c.numstr(h)}
    if given in ('both', 'rx'):
        rect['rx'] = c.numstr(rx)
    if given in ('both', 'ry'):
        rect['ry'] = c.numstr(ry)
    got = _parse(c, c.call('svg_to_paths.rect2pathd', rect))
    p = lambda a, b: ops.cx(a, b)
    arc = lambda s, e: ('Arc', s, rx, ry, 0, False, True, e)
    want = [('Line', p(x + rx, y), p(x + w - rx, y)), arc(p(x + w - rx, y), p(x + w, y + ry)),
            ('Line', p(x + w, y + ry), p(x + w, y + h - ry)), arc(p(x + w, y + h - ry), p(x + w - rx, y + h)),
            ('Line', p(x + w - rx, y + h), p(x + rx, y + h)), arc(p(x + rx, y + h), p(x, y + h - ry)),
            ('Line', p(x, y + h - ry), p(x, y + ry)), arc(p(x, y + ry), p(x + rx, y))]
    _check_segments(c, got, want, 'rounded-rect(%s)' % given)


@contract('C17', 'svg_to_paths.ellipse2pathd', params=[{'circle': b} for b in (True, False)])
def ellipse_and_circle(c, circle):
    cx_, cy = c.real('cx'), c.real('cy')
    rx = c.real('rx')
    ry = rx if circle else c.real('ry')
    c.assume(ops.And(ops.lt(0, rx), ops.lt(0, ry)))
    el = {'cx': c.numstr(cx_), 'cy': c.numstr(cy)}
    if circle:
        el['r'] = c.numstr(rx)
    else:
        el['rx'], el['ry'] = c.numstr(rx), c.numstr(ry)
    got = _parse(c, c.call('svg_to_paths.ellipse2pathd', el))
    left, right = ops.cx(cx_ - rx, cy), ops.cx(cx_ + rx, cy)
    # two half ellipses with the element's radii, unrotated, same sweep direction, through the
    # two ends of the horizontal axis: together the whole ellipse (point set of the SVG shape)
    want = [('Arc', left, rx, ry, 0, True, False, right), ('Arc', right, rx, ry, 0, True, False, left)]
    _check_segments(c, got, want, 'circle' if circle else 'ellipse')


def _points_attr(c, pts):
    """LEX cut for the points attribute: the coordinate pairs found in the string"""
    if c.mode == 'sym':
        from pyvc import interp as I
        pairs = [(c.numstr(ops.re(p)), c.numstr(ops.im(p))) for p in pts]
        c.cut_at('svg_to_paths.polyline2pathd', 'points', lambda v: list(pairs))
        return {'points': ' '.join('0,0' for _ in pts)}
    return {'points': ' '.join('%r,%r' % (p.real, p.imag) for p in pts)}


@contract('C17', 'svg_to_paths.polyline2pathd', params=[{'n': n, 'polygon': g, 'closed': cl} for n in (2, 3, 4) for g in (False, True) for cl in (False, True) if not (n == 2 and cl)])
def polyline_and_polygon(c, n, polygon, closed):
    pts = [c.cplx('p%d' % i) for i in range(n)]
    if closed:
        pts[-1] = pts[0]
    else:
        c.assume(ops.ne(pts[0], pts[-1]))
    for i in range(n - 1):
        c.assume(ops.ne(pts[i], pts[i + 1]))
    attr = _points_attr(c, pts)
    d = c.call('svg_to_paths.polygon2pathd' if polygon else 'svg_to_paths.polyline2pathd', attr)
    got = _parse(c, d)
    want = [('Line', pts[i], pts[i + 1]) for i in range(n - 1)]
    if polygon and not closed:
        want.append(('Line', pts[-1], pts[0]))       # implicit closing side
    if polygon and closed:
        want.append(('Line', pts[-1], pts[0]))       # n points -> n lines, the last of length zero (documented)
        want = want[:n]
    _check_segments(c, got, want, 'polygon' if polygon else 'polyline')


@contract('C17', 'svg_to_paths.line2pathd', params=[{'_no_bounded': True}])
def line_element(c):
    a, b = c.cplx('a'), c.cplx('b')
    c.assume(ops.ne(a, b))
    el = c.element('line', {'x1': c.numstr(ops.re(a)), 'y1': c.numstr(ops.im(a)), 'x2': c.numstr(ops.re(b)), 'y2': c.numstr(ops.im(b))})
    got = _parse(c, c.call('svg_to_paths.line2pathd', el))
    _check_segments(c, got, [('Line', a, b)], 'line')


# ------------------------------------------------------------------------------- trees

def _tree(c, shape):
    """shape: nested tuples ('g', children...) / 'p' (a path leaf).  Every element carries a
    transform attribute, except 'p-' leaves and ('g-', ...) groups; returns (root, leaves=[(elem, (a,b), [matrices outermost first])])"""
    counter = [0]
    mats = {}
    leaves = []

    def tf():
        k = counter[0]
        counter[0] += 1
        M = [[c.real('t%d_%d%d' % (k, i, j)) for j in range(3)] for i in range(2)] + [[0, 0, 1]]
        if c.mode == 'sym':
            key = 'T%d' % k
        else:
            key = 'matrix(%r %r %r %r %r %r)' % (M[0][0], M[1][0], M[0][1], M[1][1], M[0][2], M[1][2])
        mats[key] = M
        return key, M

    def build(node, chain):
        bare = (node if isinstance(node, str) else node[0]).endswith('-')      # 'p-' / ('g-', ...): no transform attribute
        if bare:
            if node == 'p-':
                a, b = c.cplx('a%d' % len(leaves)), c.cplx('b%d' % len(leaves))
                c.assume(ops.ne(a, b))
                if c.mode == 'sym':
                    from pyvc import interp as I
                    d = I.TokStr(['M ', I.Num(ops.re(a)), ',', I.Num(ops.im(a)), ' L ', I.Num(ops.re(b)), ',', I.Num(ops.im(b))])
                else:
                    d = 'M %r,%r L %r,%r' % (a.real, a.imag, b.real, b.imag)
                e = c.element('path', {'d': d})
                leaves.append((e, (a, b), list(chain)))
                return e
            return c.element('g', {}, [build(ch, list(chain)) for ch in node[1:]])
        key, M = tf()
        if node == 'p':
            a, b = c.cplx('a%d' % len(leaves)), c.cplx('b%d' % len(leaves))
            c.assume(ops.ne(a, b))
            if c.mode == 'sym':
                from pyvc import interp as I
                d = I.TokStr(['M ', I.Num(ops.re(a)), ',', I.Num(ops.im(a)), ' L ', I.Num(ops.re(b)), ',', I.Num(ops.im(b))])
            else:
                d = 'M %r,%r L %r,%r' % (a.real, a.imag, b.real, b.imag)
            e = c.element('path', {'d': d, 'transform': key})
            leaves.append((e, (a, b), chain + [M]))
            return e
        kids = [build(ch, chain + [M]) for ch in node[1:]]
        return c.element('g', {'transform': key}, kids)
    root = build(shape, [])
    if c.mode == 'sym':
        def pt(ip, f, args, kwargs):
            s = args[0]
            if not s:
                return c.matrix(I3)
            return c.matrix(mats[s])
        c.ip.summaries['parser.parse_transform'] = pt
        from contracts.c01 import _install_lex
        _install_lex(c)
    return root, leaves


def _product(chain):
    M = I3
    for X in chain:
        M = mat_mul(M, X)
    return M


TREES = {'leaf-in-root': ('g', 'p'), 'nested': ('g', ('g', 'p')), 'siblings': ('g', 'p', ('g', 'p'), 'p'), 'deep': ('g', ('g', ('g', 'p'), 'p')),
         # elements WITHOUT a transform attribute below elements with one (they inherit the matrix, not the attribute)
         'bare-leaf': ('g', 'p-'), 'bare-group-between': ('g', ('g-', 'p-'), 'p'), 'bare-leaf-two-levels-down': ('g', ('g', 'p-', 'p'))}


def _non_identity(c, M):
    return ops.Not(mat_eq(M, I3))


@contract('C17', 'document.flattened_paths', params=[{'tree': t} for t in TREES], level='per-shape', budget=120)
def flattened_paths_compose_ancestors_outermost_first(c, tree):
    root, leaves = _tree(c, TREES[tree])
    for (e, ab, chain) in leaves:
        c.assume(_non_identity(c, _product(chain)))
    res = list(c.items(c.call('document.flattened_paths', root)))
    c.ensures('one-path-per-leaf', len(res) == len(leaves))
    for k, (e, (a, b), chain) in enumerate(leaves):
        mine = [p for p in res if c.get(p, 'element') is e]
        c.ensures('leaf-%d-returned-exactly-once' % k, len(mine) == 1)
        if len(mine) != 1:
            continue
        M = _product(chain)
        segs = list(c.items(mine[0]))
        c.ensures('leaf-%d-geometry-mapped-by-ancestors*own' % k, len(segs) == 1 and
                  ops.And(ops.eq(c.get(segs[0], 'start'), affine(M, a)), ops.eq(c.get(segs[0], 'end'), affine(M, b))))
        c.ensures('leaf-%d-records-the-transform-applied' % k, mat_eq(c.matrix_rows(c.get(mine[0], 'transform')), M))


def _sax(c, root):
    if c.mode == 'sym':
        from pyvc import interp as I
        svg = c.element('svg', {}, [root])
        events = []

        def walk(e):
            events.append(('start', e))
            for ch in c.get(e, 'children'):
                walk(ch)
            events.append(('end', e))
        walk(svg)
        c.ip.iterparse_model = I.Builtin('iterparse(model)', lambda ip, a, k: I.IterV(list(events)))
        doc = c.new('svg_io_sax.SaxDocument', None)
        c.callm(doc, 'sax_parse', 'file.svg')
        return doc
    import os
    import tempfile
    import xml.etree.ElementTree as ET
    svg = ET.Element('{http://www.w3.org/2000/svg}svg')
    svg.append(root)
    fd, name = tempfile.mkstemp(suffix='.svg')
    os.close(fd)
    try:
        ET.ElementTree(svg).write(name)
        return c.new('svg_io_sax.SaxDocument', name)
    finally:
        os.unlink(name)


@contract('C17', 'svg_io_sax.SaxDocument.sax_parse', params=[{'tree': t} for t in TREES], level='per-shape', budget=120,
          covers=('svg_io_sax.SaxDocument.flatten_all_paths',))
def sax_document_agrees_with_the_reference(c, tree):
    root, leaves = _tree(c, TREES[tree])
    for (e, ab, chain) in leaves:
        c.assume(_non_identity(c, _product(chain)))
    doc = _sax(c, root)
    res = list(c.items(c.callm(doc, 'flatten_all_paths')))
    c.ensures('one-path-per-leaf-in-document-order', len(res) == len(leaves))
    if len(res) != len(leaves):
        return
    for k, (e, (a, b), chain) in enumerate(leaves):
        M = _product(chain)
        segs = list(c.items(res[k]))
        c.ensures('leaf-%d-geometry-mapped-by-ancestors*own' % k, len(segs) == 1 and
                  ops.And(ops.eq(c.get(segs[0], 'start'), affine(M, a)), ops.eq(c.get(segs[0], 'end'), affine(M, b))))


@contract('C17', 'svg_to_paths.rect2pathd')
def rounded_rect_radii_are_clamped(c):
    """SVG 1.1 section 9.2: 'If rx is greater than half of width, then set rx to half of width';
    likewise ry and height"""
    x, y, w, h = c.real('x'), c.real('y'), c.real('w'), c.real('h')
    rx, ry = c.real('rx'), c.real('ry')
    c.assume(ops.And(ops.lt(0, w), ops.lt(0, h), ops.lt(0, ry), ops.lt(2 * ry, h), ops.lt(w, 2 * rx)))
    rect = {'x': c.numstr(x), 'y': c.numstr(y), 'width': c.numstr(w), 'height': c.numstr(h), 'rx': c.numstr(rx), 'ry': c.numstr(ry)}
    got = _parse(c, c.call('svg_to_paths.rect2pathd', rect))
    arcs = [g for g in got if c.isinstance(g, 'path.Arc')]
    c.ensures('four-corner-arcs', len(arcs) == 4)
    for k, a in enumerate(arcs):
        c.ensures('corner-%d-uses-rx=width/2' % k, ops.eq(ops.re(c.get(a, 'radius')), w / 2))


# ---------------------------------------------------------------- flattened_paths_from_group
GROUP_TREES = {
    # (shape, path of child indices from the root to the requested group)
    'deep-under-target': (('g', 'p', ('g', 'p', ('g', 'p', ('g', 'p')))), [1]),
    'target-below-a-sibling': (('g', ('g', 'p'), ('g', ('g', 'p', ('g', 'p')), 'p')), [1, 0]),
    'target-is-root': (('g', 'p', ('g', 'p')), []),
}


def _kids(c, e):
    return list(c.get(e, 'children')) if c.mode == 'sym' else list(e)


def _descend(c, root, route):
    e = root
    for k in route:
        e = _kids(c, e)[k]
    return e


def _is_under(c, elem, anc):
    """is `elem` a (possibly indirect) child of element `anc` (or anc itself)?"""
    if elem is anc:
        return True
    return any(_is_under(c, elem, ch) for ch in _kids(c, anc))


@contract('C17', 'document.flattened_paths_from_group',
          params=[{'tree': t, 'recursive': r, '_no_bounded': True} for t in GROUP_TREES for r in (True, False)], level='per-shape', budget=120)
def flattened_paths_from_group_returns_the_leaves_below_the_group(c, tree, recursive):
    """exactly the path leaves below the requested group (all depths when recursive, its direct
    children otherwise), each mapped by the product of ALL its ancestors' transforms from the
    root down, outermost first"""
    shape, route = GROUP_TREES[tree]
    root, leaves = _tree(c, shape)
    for (e, ab, chain) in leaves:
        c.assume(_non_identity(c, _product(chain)))
    target = _descend(c, root, route)
    res = list(c.items(c.call('document.flattened_paths_from_group', target, root, recursive)))
    if recursive:
        want = [lf for lf in leaves if _is_under(c, lf[0], target)]
    else:
        want = [lf for lf in leaves if any(lf[0] is ch for ch in _kids(c, target))]
    c.ensures('one-path-per-requested-leaf-and-no-other', len(res) == len(want) and all(any(c.get(p, 'element') is lf[0] for lf in want) for p in res))
    for k, (e, (a, b), chain) in enumerate(want):
        mine = [p for p in res if c.get(p, 'element') is e]
        c.ensures('leaf-%d-returned-exactly-once' % k, len(mine) == 1)
        if len(mine) != 1:
            continue
        M = _product(chain)
        segs = list(c.items(mine[0]))
        c.ensures('leaf-%d-geometry-mapped-by-all-ancestors-from-the-root' % k, len(segs) == 1 and
                  ops.And(ops.eq(c.get(segs[0], 'start'), affine(M, a)), ops.eq(c.get(segs[0], 'end'), affine(M, b))))


# ------------------------------------------------------------------------------- svg2paths
# assumed model of xml.dom.minidom (listed): parse(file) gives a document whose
# getElementsByTagName(tag) yields the elements with that tag in document order, each with an
# `attributes` mapping name -> node with `.value`; unlink() does nothing observable.

def _minidom_doc(c, elements):
    """elements: list of (tag, {attr: value}) in document order"""
    from pyvc import interp as I

    def m(fn):
        b = I.Builtin(fn.__name__, fn)
        b.is_method = True
        return b
    attr_cls = I.ClassV('Attr', [], {}, 'xml.dom.minidom.Attr')
    el_cls = I.ClassV('Element', [], {}, 'xml.dom.minidom.Element')
    els = []
    for tag, attrs in elements:
        e = I.Obj(el_cls)
        nodes = {}
        for k, v in attrs.items():
            a = I.Obj(attr_cls)
            a.attrs['value'] = v
            nodes[k] = a
        e.attrs.update(tagName=tag, attributes=nodes)
        els.append(e)
    state = {'unlinked': 0}

    def getElementsByTagName(ip, a, k):
        return [e for e in els if e.attrs['tagName'] == a[1]]

    def unlink(ip, a, k):
        state['unlinked'] += 1
    doc_cls = I.ClassV('Document', [], {'getElementsByTagName': m(getElementsByTagName), 'unlink': m(unlink)}, 'xml.dom.minidom.Document')
    doc = I.Obj(doc_cls)
    file_cls = I.ClassV('File', [], {}, 'io.File')
    handle = I.Obj(file_cls)
    c.set_global('svg_to_paths.parse', I.Builtin('parse(model)', lambda ip, a, k: doc if a[0] is handle else ip.raise_py('ValueError', 'not the file')))
    return handle, els, state


SVG2PATHS_FLAGS = ['convert_circles_to_paths', 'convert_ellipses_to_paths', 'convert_lines_to_paths', 'convert_polylines_to_paths',
                   'convert_polygons_to_paths', 'convert_rectangles_to_paths']


@contract('C17', 'svg_to_paths.svg2paths', params=[{'off': f, '_no_bounded': True} for f in [None] + SVG2PATHS_FLAGS], level='per-shape')
def svg2paths_converts_every_kind_it_is_asked_to(c, off):
    """one element of every kind, interleaved in the document: the result holds the path elements
    first and then the converted shapes kind by kind (polylines, polygons, lines, ellipses,
    circles, rects), each parsed from the d-string its converter gives, with the element's own
    attribute dictionary at the same index; a kind whose flag is off is left out"""
    from contracts.c01 import _install_lex
    _install_lex(c)
    made = {}

    def conv(name):
        def f(ip, fn, a, k):
            made[name] = a[0]
            return 'D:' + name
        return f
    for name in ('polyline2pathd', 'polygon2pathd', 'ellipse2pathd', 'rect2pathd'):
        c.ip.summaries['svg_to_paths.' + name] = conv(name)
    parsed = []

    def parse_path(ip, fn, a, k):
        parsed.append(a[0])
        return ('PATH', a[0])
    c.ip.summaries['parser.parse_path'] = parse_path
    elements = [('rect', {'x': '1', 'id': 'r'}), ('path', {'d': 'Dpath0', 'id': 'p0'}), ('circle', {'r': '2', 'id': 'c'}), ('line', {'x1': 'X1', 'y1': 'Y1', 'x2': 'X2', 'y2': 'Y2', 'id': 'l'}),
                ('polygon', {'points': 'pg', 'id': 'pg'}), ('ellipse', {'rx': '3', 'id': 'e'}), ('path', {'d': 'Dpath1', 'id': 'p1'}), ('polyline', {'points': 'pl', 'id': 'pl'})]
    handle, els, state = _minidom_doc(c, elements)
    kw = {off: False} if off else {}
    paths, attrs = c.items(c.call('svg_to_paths.svg2paths', handle, **kw))
    paths, attrs = list(c.items(paths)), list(c.items(attrs))
    order = [('path', 'p0', 'Dpath0'), ('path', 'p1', 'Dpath1'), ('polyline', 'pl', 'D:polyline2pathd'), ('polygon', 'pg', 'D:polygon2pathd'),
             ('line', 'l', None), ('ellipse', 'e', 'D:ellipse2pathd'), ('circle', 'c', 'D:ellipse2pathd'), ('rect', 'r', 'D:rect2pathd')]
    skip = {'convert_circles_to_paths': 'circle', 'convert_ellipses_to_paths': 'ellipse', 'convert_lines_to_paths': 'line',
            'convert_polylines_to_paths': 'polyline', 'convert_polygons_to_paths': 'polygon', 'convert_rectangles_to_paths': 'rect'}.get(off)
    want = [o for o in order if o[0] != skip]
    c.ensures('one-path-and-one-attribute-dictionary-per-requested-element', len(paths) == len(want) and len(attrs) == len(want))
    if len(paths) != len(want) or len(attrs) != len(want):
        return
    for k, (tag, ident, d) in enumerate(want):
        c.ensures('element-%d-is-%s#%s-with-its-own-attributes' % (k, tag, ident), attrs[k].get('id') == ident)
        if d is not None:
            c.ensures('element-%d-parsed-from-its-converter' % k, paths[k] == ('PATH', d))
        else:
            got = paths[k][1] if isinstance(paths[k], tuple) else None
            c.ensures('line-element-is-M-x1-y1-L-x2-y2', got is not None and str(got).replace(' ', '') == 'MX1Y1LX2Y2')
    c.ensures('document-is-released', state['unlinked'] == 1)


@contract('C17', 'svg_to_paths.polyline2pathd', params=[{'polygon': g, '_bounded_only': True} for g in (False, True)])
def points_attribute_is_split_as_the_svg_grammar_says(c, polygon):
    """bounded stand-in (LEX for `points`): three coordinate pairs written in every combination of
    number notations (integer, signed, leading-dot, trailing-dot, exponent) and separators (comma,
    blanks, both, newline; no separator before a minus sign): the d-string holds exactly these
    numbers, pair by pair"""
    import itertools
    import svgpathtools.svg_to_paths as s2p
    notations = [('5', 5.0), ('-5', -5.0), ('0.5', 0.5), ('.5', 0.5), ('-.25', -0.25), ('5.', 5.0), ('1e1', 10.0), ('1.5e-1', 0.15), ('+3', 3.0), ('-2E+1', -20.0)]
    inner = [',', ' ', ' , ', ', ', '\t']
    outer = [' ', ',', '\n', ' , ']
    bad = []
    n = 0
    # each evaluation checks one sixtieth of the combinations (all of them over the 60 samples of a run)
    pick = int(abs(c.real('pick')) * 1000) % 60
    for (x0, y0, x1) in itertools.product(notations, repeat=3):
        for si in inner:
            for so in outer:
                if (n % 60) != pick and c.mode == 'conc' and not getattr(c, 'replaying', False):
                    n += 1
                    continue
                pts = [(x0, y0), (x1, notations[(n + 3) % len(notations)]), (notations[(n + 5) % len(notations)], x0)]
                n += 1
                txt = so.join(a[0] + si + b[0] for a, b in pts)
                want = [(a[1], b[1]) for a, b in pts]
                if want[0] == want[-1]:
                    continue
                d = s2p.polyline2pathd({'points': txt}, polygon)
                body = d[1:-1] if d.endswith('z') else d[1:]
                got = [tuple(float(v) for v in piece.split()) for piece in body.split('L')]
                exp = want + ([] if not polygon else [])
                if got != exp or d.endswith('z') != bool(polygon):
                    bad.append((txt, got, exp))
    # a minus sign needs no separator in front of it
    for txt, want in (('1-2 3-4 5-6', [(1.0, -2.0), (3.0, -4.0), (5.0, -6.0)]), ('.5-.5 1-.25 -1-1', [(0.5, -0.5), (1.0, -0.25), (-1.0, -1.0)])):
        d = s2p.polyline2pathd({'points': txt}, polygon)
        body = d[1:-1] if d.endswith('z') else d[1:]
        got = [tuple(float(v) for v in piece.split()) for piece in body.split('L')]
        if got != want:
            bad.append((txt, got, want))
    c.bad_examples = bad[:3]
    c.ensures('points-are-the-numbers-written', not bad)
