"""C10 -- translated/rotated/scaled/transform commute with point evaluation."""
from pyvc.dsl import contract
from pyvc import ops
from specs import bez
from contracts.c03 import CLASSES, NAMES, mkseg
from contracts.c09 import _bp


def _register(fn, target, n, **kw):
    fn.__name__ = '%s_%s' % (fn.__name__, NAMES[n])
    globals()[fn.__name__] = fn
    contract('C10', target, **kw)(fn)


def affine(M, z):
    """the affine map with matrix rows M[0], M[1] applied to the point z"""
    x, y = ops.re(z), ops.im(z)
    return ops.cx(M[0][0] * x + M[0][1] * y + M[0][2], M[1][0] * x + M[1][1] * y + M[1][2])


for _n in (2, 3, 4):
    def _mk(n):
        def translated(c):
            P, seg = mkseg(c, n)
            z, t = c.cplx('z'), c.real('t')
            r = c.callm(seg, 'translated', z)
            c.ensures('same-class', c.isinstance(r, CLASSES[n]))
            c.ensures('translated(z).point(t)==point(t)+z', ops.eq(bez.bern(_bp(c, r), t), bez.bern(P, t) + z))
        _register(translated, 'path.translate', n)

        def rotated(c):
            P, seg = mkseg(c, n)
            o, t, degs = c.cplx('o'), c.real('t'), c.real('degs')
            co, si = c.cos_sin_deg(degs)
            w = ops.cx(co, si)
            r = c.callm(seg, 'rotated', degs, o)
            c.ensures('same-class', c.isinstance(r, CLASSES[n]))
            c.ensures('rotated(degs,origin).point(t)==w*(point(t)-origin)+origin',
                      ops.eq(bez.bern(_bp(c, r), t), w * (bez.bern(P, t) - o) + o))
            r2 = c.callm(seg, 'rotated', degs)
            o2 = bez.bern(P, c.const('0.5'))
            c.ensures('default-origin-is-point(0.5)',
                      ops.eq(bez.bern(_bp(c, r2), t), w * (bez.bern(P, t) - o2) + o2))
        _register(rotated, 'path.rotate', n)

        def scaled(c):
            P, seg = mkseg(c, n)
            o, t, sx, sy = c.cplx('o'), c.real('t'), c.real('sx'), c.real('sy')

            def img(z, a, b, org):
                d = z - org
                return org + ops.cx(a * ops.re(d), b * ops.im(d))
            r = c.callm(seg, 'scaled', sx, sy, o)
            c.ensures('same-class', c.isinstance(r, CLASSES[n]))
            c.ensures('scaled(sx,sy,origin).point(t)', ops.eq(bez.bern(_bp(c, r), t), img(bez.bern(P, t), sx, sy, o)))
            r1 = c.callm(seg, 'scaled', sx, origin=o)
            c.ensures('scaled(sx,origin=o).point(t)-uniform', ops.eq(bez.bern(_bp(c, r1), t), img(bez.bern(P, t), sx, sx, o)))
            r0 = c.callm(seg, 'scaled', sx, sy)
            c.ensures('scaled(sx,sy).point(t)-about-0', ops.eq(bez.bern(_bp(c, r0), t), img(bez.bern(P, t), sx, sy, 0)))
        _register(scaled, 'path.scale', n)

        def transform(c):
            P, seg = mkseg(c, n)
            t = c.real('t')
            M = [[c.real('m%d%d' % (i, j)) for j in range(3)] for i in range(2)]
            tf = c.matrix(M + [[0, 0, 1]])
            r = c.call('path.transform', seg, tf)
            c.ensures('same-class', c.isinstance(r, CLASSES[n]))
            c.ensures('transform(seg,M).point(t)==M(point(t))', ops.eq(bez.bern(_bp(c, r), t), affine(M, bez.bern(P, t))))
        _register(transform, 'path.transform', n)
    _mk(_n)


@contract('C10', 'path.transform', params=[{'n': n} for n in (2, 3, 4)])
def transform_identity_returns_same_object(c, n):
    P, seg = mkseg(c, n)
    tf = c.matrix([[1, 0, 0], [0, 1, 0], [0, 0, 1]])
    r = c.call('path.transform', seg, tf)
    c.ensures('identity-returns-the-curve-itself', r is seg)


# ---------------------------------------------------------------- paths: segment-wise action, joints

from contracts.c05 import mkpath  # noqa: E402

PATH_SHAPES = [{'kinds': k} for k in ['L', 'LQ', 'CL', 'QLC']]
OPS = ['translated', 'rotated', 'scaled', 'scaled_uniform', 'transform']


@contract('C10', 'path.transform_segments_together',
          params=[dict(p, op=o) for p in PATH_SHAPES for o in OPS], level='per-shape')
def path_ops_act_segmentwise_and_keep_joints(c, kinds, op):
    path, segs, pts = mkpath(c, kinds)
    n = len(segs)
    t = c.real('t')
    if op == 'translated':
        z = c.cplx('z')
        r = c.callm(path, 'translated', z)
        img = lambda w: w + z
    elif op == 'rotated':
        degs, o = c.real('degs'), c.cplx('o')
        co, si = c.cos_sin_deg(degs)
        r = c.callm(path, 'rotated', degs, o)
        img = lambda w: ops.cx(co, si) * (w - o) + o
    elif op in ('scaled', 'scaled_uniform'):
        sx, o = c.real('sx'), c.cplx('o')
        sy = c.real('sy') if op == 'scaled' else sx
        r = c.callm(path, 'scaled', sx, sy, o) if op == 'scaled' else c.callm(path, 'scaled', sx, origin=o)
        img = lambda w: o + ops.cx(sx * ops.re(w - o), sy * ops.im(w - o))
    else:
        M = [[c.real('m%d%d' % (i, j)) for j in range(3)] for i in range(2)]
        c.assume(ops.Not(ops.And(ops.eq(M[0][0], 1), ops.eq(M[0][1], 0), ops.eq(M[0][2], 0),
                                 ops.eq(M[1][0], 0), ops.eq(M[1][1], 1), ops.eq(M[1][2], 0))))
        r = c.call('path.transform', path, c.matrix(M + [[0, 0, 1]]))
        img = lambda w: affine(M, w)
    rs = list(c.items(r))
    c.ensures('same-number-of-segments', len(rs) == n)
    for i in range(n):
        c.ensures('segment-%d-is-the-image-of-segment-%d' % (i, i),
                  ops.And(c.isinstance(rs[i], {2: 'path.Line', 3: 'path.QuadraticBezier', 4: 'path.CubicBezier'}[len(pts[i])]),
                          ops.eq(bez.bern(_bp(c, rs[i]), t), img(bez.bern(pts[i], t)))))
    for i in range(n):
        j = (i + 1) % n
        was = ops.eq(pts[i][-1], pts[j][0])
        now = ops.eq(_bp(c, rs[i])[-1], _bp(c, rs[j])[0])
        c.ensures('joint-%d->%d-still-coincides%s' % (i, j, '(closing)' if j == 0 else ''), ops.Implies(was, now))


# ---- "joints that coincided exactly before still coincide exactly after": float ==, decided in
# EUF mode (DESIGN.md 1.8b): arithmetic operators are uninterpreted, so an equality proved here
# holds bit for bit; equalities that need algebra are not provable and are reported.

EUF_SHAPES = [{'kinds': k} for k in ['LC', 'QLC', 'CC']]


@contract('C10', 'path.transform_segments_together',
          params=[dict(p, op=o, _euf=True) for p in EUF_SHAPES for o in OPS], level='per-shape',
          note='EUF back end: equality by determinism of the IEEE operations')
def closed_path_stays_exactly_closed(c, kinds, op):
    path, segs, pts = mkpath(c, kinds, continuous=True)
    # close it: the last segment ends exactly where the first starts
    c.set(segs[-1], 'end', pts[0][0])
    path = c.new('path.Path', *segs)
    n = len(segs)
    if op == 'translated':
        r = c.callm(path, 'translated', c.cplx('z'))
    elif op == 'rotated':
        r = c.callm(path, 'rotated', c.real('degs'), c.cplx('o'))
    elif op == 'scaled':
        r = c.callm(path, 'scaled', c.real('sx'), c.real('sy'), c.cplx('o'))
    elif op == 'scaled_uniform':
        r = c.callm(path, 'scaled', c.real('sx'), origin=c.cplx('o'))
    else:
        M = [[c.real('m%d%d' % (i, j)) for j in range(3)] for i in range(2)]
        c.assume(ops.ne(M[0][2], 0))
        r = c.call('path.transform', path, c.matrix(M + [[0, 0, 1]]))
    rs = list(c.items(r))
    for i in range(n):
        j = (i + 1) % n
        c.ensures('joint-%d->%d-coincides-exactly%s' % (i, j, '(closing)' if j == 0 else ''),
                  c.exact_eq(c.get(rs[i], 'end'), c.get(rs[j], 'start')))
