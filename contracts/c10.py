"""C10 -- translated/rotated/scaled/transform commute with point evaluation."""
from pyvc.dsl import contract
from pyvc import ops
from specs import bez
from contracts.c03 import CLASSES, NAMES, mkseg
from contracts.c09 import _bp


def _register(fn, target, n, **kw):
    fn.__name__ = '%s_%s' % (fn.__name__, NAMES[n])
    globals()[fn.__name__] = fn
    contract('C10', target, **kw)(fn)


def affine(M, z):
    """the affine map with matrix rows M[0], M[1] applied to the point z"""
    x, y = ops.re(z), ops.im(z)
    return ops.cx(M[0][0] * x + M[0][1] * y + M[0][2], M[1][0] * x + M[1][1] * y + M[1][2])


for _n in (2, 3, 4):
    def _mk(n):
        def translated(c):
            P, seg = mkseg(c, n)
            z, t = c.cplx('z'), c.real('t')
            r = c.callm(seg, 'translated', z)
            c.ensures('same-class', c.isinstance(r, CLASSES[n]))
            c.ensures('translated(z).point(t)==point(t)+z', ops.eq(bez.bern(_bp(c, r), t), bez.bern(P, t) + z))
        _register(translated, 'path.translate', n)

        def rotated(c):
            P, seg = mkseg(c, n)
            o, t, degs = c.cplx('o'), c.real('t'), c.real('degs')
            co, si = c.cos_sin_deg(degs)
            w = ops.cx(co, si)
            r = c.callm(seg, 'rotated', degs, o)
            c.ensures('same-class', c.isinstance(r, CLASSES[n]))
            c.ensures('rotated(degs,origin).point(t)==w*(point(t)-origin)+origin',
                      ops.eq(bez.bern(_bp(c, r), t), w * (bez.bern(P, t) - o) + o))
            r2 = c.callm(seg, 'rotated', degs)
            o2 = bez.bern(P, c.const('0.5'))
            c.ensures('default-origin-is-point(0.5)',
                      ops.eq(bez.bern(_bp(c, r2), t), w * (bez.bern(P, t) - o2) + o2))
        _register(rotated, 'path.rotate', n)

        def scaled(c):
            P, seg = mkseg(c, n)
            o, t, sx, sy = c.cplx('o'), c.real('t'), c.real('sx'), c.real('sy')

            def img(z, a, b, org):
                d = z - org
                return org + ops.cx(a * ops.re(d), b * ops.im(d))
            r = c.callm(seg, 'scaled', sx, sy, o)
            c.ensures('same-class', c.isinstance(r, CLASSES[n]))
            c.ensures('scaled(sx,sy,origin).point(t)', ops.eq(bez.bern(_bp(c, r), t), img(bez.bern(P, t), sx, sy, o)))
            r1 = c.callm(seg, 'scaled', sx, origin=o)
            c.ensures('scaled(sx,origin=o).point(t)-uniform', ops.eq(bez.bern(_bp(c, r1), t), img(bez.bern(P, t), sx, sx, o)))
            r0 = c.callm(seg, 'scaled', sx, sy)
            c.ensures('scaled(sx,sy).point(t)-about-0', ops.eq(bez.bern(_bp(c, r0), t), img(bez.bern(P, t), sx, sy, 0)))
        _register(scaled, 'path.scale', n)

        def transform(c):
            P, seg = mkseg(c, n)
            t = c.real('t')
            M = [[c.real('m%d%d' % (i, j)) for j in range(3)] for i in range(2)]
            tf = c.matrix(M + [[0, 0, 1]])
            r = c.call('path.transform', seg, tf)
            c.ensures('same-class', c.isinstance(r, CLASSES[n]))
            c.ensures('transform(seg,M).point(t)==M(point(t))', ops.eq(bez.bern(_bp(c, r), t), affine(M, bez.bern(P, t))))
        _register(transform, 'path.transform', n)
    _mk(_n)


@contract('C10', 'path.transform', params=[{'n': n} for n in (2, 3, 4)])
def transform_identity_returns_same_object(c, n):
    P, seg = mkseg(c, n)
    tf = c.matrix([[1, 0, 0], [0, 1, 0], [0, 0, 1]])
    r = c.call('path.transform', seg, tf)
    c.ensures('identity-returns-the-curve-itself', r is seg)


# ---------------------------------------------------------------- paths: segment-wise action, joints

from contracts.c05 import mkpath  # noqa: E402

PATH_SHAPES = [{'kinds': k} for k in ['L', 'LQ', 'CL', 'QLC']]
OPS = ['translated', 'rotated', 'rotated_default_origin', 'scaled', 'scaled_uniform', 'transform']


@contract('C10', 'path.transform_segments_together',
          params=[dict(p, op=o) for p in PATH_SHAPES for o in OPS], level='per-shape')
def path_ops_act_segmentwise_and_keep_joints(c, kinds, op):
    path, segs, pts = mkpath(c, kinds)
    n = len(segs)
    t = c.real('t')
    if op == 'translated':
        z = c.cplx('z')
        r = c.callm(path, 'translated', z)
        img = lambda w: w + z
    elif op == 'rotated':
        degs, o = c.real('degs'), c.cplx('o')
        co, si = c.cos_sin_deg(degs)
        r = c.callm(path, 'rotated', degs, o)
        img = lambda w: ops.cx(co, si) * (w - o) + o
    elif op == 'rotated_default_origin':
        # no origin given: the WHOLE path turns about its own point(0.5) (docstring of rotate);
        # Path.point enters through its contract (C05): some point o, asked for at T = 0.5
        degs, o = c.real('degs'), c.cplx('o')
        co, si = c.cos_sin_deg(degs)
        asked = []

        def point_contract(ip, f, args, kwargs):
            asked.append((args[0], args[1]))
            return o
        if c.mode == 'sym':
            c.ip.summaries['path.Path.point'] = point_contract
        else:
            o = path.point(0.5)
        r = c.callm(path, 'rotated', degs)
        if c.mode == 'sym':
            c.ensures('default-origin-is-asked-of-the-path-at-0.5', len(asked) >= 1 and all(a is path and c.py_eq(T, c.const('0.5')) is True for a, T in asked))
        img = lambda w: ops.cx(co, si) * (w - o) + o
    elif op in ('scaled', 'scaled_uniform'):
        sx, o = c.real('sx'), c.cplx('o')
        sy = c.real('sy') if op == 'scaled' else sx
        r = c.callm(path, 'scaled', sx, sy, o) if op == 'scaled' else c.callm(path, 'scaled', sx, origin=o)
        img = lambda w: o + ops.cx(sx * ops.re(w - o), sy * ops.im(w - o))
    else:
        M = [[c.real('m%d%d' % (i, j)) for j in range(3)] for i in range(2)]
        c.assume(ops.Not(ops.And(ops.eq(M[0][0], 1), ops.eq(M[0][1], 0), ops.eq(M[0][2], 0),
                                 ops.eq(M[1][0], 0), ops.eq(M[1][1], 1), ops.eq(M[1][2], 0))))
        r = c.call('path.transform', path, c.matrix(M + [[0, 0, 1]]))
        img = lambda w: affine(M, w)
    rs = list(c.items(r))
    c.ensures('same-number-of-segments', len(rs) == n)
    for i in range(n):
        c.ensures('segment-%d-is-the-image-of-segment-%d' % (i, i),
                  ops.And(c.isinstance(rs[i], {2: 'path.Line', 3: 'path.QuadraticBezier', 4: 'path.CubicBezier'}[len(pts[i])]),
                          ops.eq(bez.bern(_bp(c, rs[i]), t), img(bez.bern(pts[i], t)))))
    for i in range(n):
        j = (i + 1) % n
        was = ops.eq(pts[i][-1], pts[j][0])
        now = ops.eq(_bp(c, rs[i])[-1], _bp(c, rs[j])[0])
        c.ensures('joint-%d->%d-still-coincides%s' % (i, j, '(closing)' if j == 0 else ''), ops.Implies(was, now))


@contract('C10', 'path.transform_segments_together', params=[{'kinds': 'LQ', 'op': o, '_no_bounded': True} for o in ('translated', 'rotated', 'scaled_uniform', 'transform')], level='per-shape')
def path_ops_return_a_consistent_path_whatever_was_cached(c, kinds, op):
    """the transformed path is a Path in a consistent state (C16's invariant) even when the
    original's length caches were warm: whatever it carries is about ITS segments, so that
    path-level point(T) of the result commutes too"""
    from contracts.c16 import check_inv
    path, segs, pts = mkpath(c, kinds)
    c.callm(path, '_calc_lengths')
    if op == 'translated':
        r = c.callm(path, 'translated', c.cplx('z'))
    elif op == 'rotated':
        r = c.callm(path, 'rotated', c.real('degs'), c.cplx('o'))
    elif op == 'scaled_uniform':
        r = c.callm(path, 'scaled', c.real('sx'), origin=c.cplx('o'))
    else:
        M = [[c.real('m%d%d' % (i, j)) for j in range(3)] for i in range(2)]
        c.assume(ops.Not(ops.And(ops.eq(M[0][0], 1), ops.eq(M[0][1], 0), ops.eq(M[0][2], 0),
                                 ops.eq(M[1][0], 0), ops.eq(M[1][1], 1), ops.eq(M[1][2], 0))))
        r = c.call('path.transform', path, c.matrix(M + [[0, 0, 1]]))
    c.ensures('a-new-Path-object', r is not path)
    check_inv(c, r, list(c.get(r, '_segments')), op)


# ---- "joints that coincided exactly before still coincide exactly after": float ==, decided in
# EUF mode (DESIGN.md 1.8b): arithmetic operators are uninterpreted, so an equality proved here
# holds bit for bit; equalities that need algebra are not provable and are reported.

EUF_SHAPES = [{'kinds': k} for k in ['LC', 'QLC', 'CC']]


@contract('C10', 'path.transform_segments_together',
          params=[dict(p, op=o, _euf=True) for p in EUF_SHAPES for o in OPS], level='per-shape',
          note='EUF back end: equality by determinism of the IEEE operations')
def closed_path_stays_exactly_closed(c, kinds, op):
    path, segs, pts = mkpath(c, kinds, continuous=True)
    # close it: the last segment ends exactly where the first starts
    c.set(segs[-1], 'end', pts[0][0])
    path = c.new('path.Path', *segs)
    n = len(segs)
    if op == 'translated':
        r = c.callm(path, 'translated', c.cplx('z'))
    elif op == 'rotated':
        r = c.callm(path, 'rotated', c.real('degs'), c.cplx('o'))
    elif op == 'scaled':
        r = c.callm(path, 'scaled', c.real('sx'), c.real('sy'), c.cplx('o'))
    elif op == 'scaled_uniform':
        r = c.callm(path, 'scaled', c.real('sx'), origin=c.cplx('o'))
    else:
        M = [[c.real('m%d%d' % (i, j)) for j in range(3)] for i in range(2)]
        c.assume(ops.ne(M[0][2], 0))
        r = c.call('path.transform', path, c.matrix(M + [[0, 0, 1]]))
    rs = list(c.items(r))
    for i in range(n):
        j = (i + 1) % n
        c.ensures('joint-%d->%d-coincides-exactly%s' % (i, j, '(closing)' if j == 0 else ''),
                  c.exact_eq(c.get(rs[i], 'end'), c.get(rs[j], 'start')))


# ------------------------------------------------------------------------------------ arcs
# The Arc branches of translate / rotate / scale build a NEW Arc from transformed endpoint
# parameters; the constructor re-parameterises from scratch (C04).  What is proved here is the
# call-site contract: the constructor receives exactly the endpoint parameters of the image arc
#   translation by z:        (start+z, (rx,ry), phi,       fA, fS, end+z)
#   rotation by a about o:   (R(start), (rx,ry), phi + a,  fA, fS, R(end)),   R(p) = w(p-o)+o
#   uniform scale s about o: (S(start), s*(rx,ry), phi,    fA, fS, S(end)),   S(p) = s(p-o)+o
# (a negative s is a half turn: the constructor drops the sign of the radii, C04).  That the
# image of an elliptical arc under these maps is the arc with these endpoint parameters is the
# SVG implementation note F.6 (assumed mathematics); with C04 it gives the statement.  The
# bounded stand-ins in arcs_bounded.py check the statement itself on floats.

def _arc_ctor_spy(c):
    calls = []

    def init(ip, f, args, kwargs):
        names = ['self', 'start', 'radius', 'rotation', 'large_arc', 'sweep', 'end', 'autoscale_radius']
        got = dict(zip(names, args))
        got.update(kwargs)
        calls.append(got)
        for k, v in got.items():
            if k != 'self':
                c.set(got['self'], k, v)
        return None
    c.ip.summaries['path.Arc.__init__'] = init
    return calls


@contract('C10', 'path.translate', params=[{'_no_bounded': True}])
def arc_translate_passes_the_translated_endpoint_parameters(c):
    from contracts.c04 import arc_state
    arc, p = arc_state(c)
    calls = _arc_ctor_spy(c)
    z = c.cplx('z')
    r = c.callm(arc, 'translated', z)
    c.ensures('one-Arc-is-built', len(calls) == 1 and c.isinstance(r, 'path.Arc'))
    g = calls[0]
    c.ensures('end-points-translated', ops.And(ops.eq(g['start'], p['start'] + z), ops.eq(g['end'], p['end'] + z)))
    c.ensures('radii-rotation-flags-unchanged', ops.And(ops.eq(g['radius'], ops.cx(p['rx'], p['ry'])), ops.eq(g['rotation'], p['rot']),
                                                        g['large_arc'] is c.get(arc, 'large_arc'), g['sweep'] is c.get(arc, 'sweep')))
    c.ensures('radii-may-still-be-enlarged', g.get('autoscale_radius', True) is True)


@contract('C10', 'path.rotate', params=[{'origin': o, '_no_bounded': True} for o in ('given', 'zero', 'default')])
def arc_rotate_passes_the_rotated_endpoint_parameters(c, origin):
    from contracts.c04 import arc_state
    arc, p = arc_state(c)
    calls = _arc_ctor_spy(c)
    degs = c.real('degs')
    co, si = c.cos_sin_deg(degs)
    w = ops.cx(co, si)
    if origin == 'given':
        o = c.cplx('o')
        r = c.callm(arc, 'rotated', degs, o)
    elif origin == 'zero':
        o = 0
        r = c.callm(arc, 'rotated', degs, 0)
    else:
        o = p['center']                     # documented default for an Arc: its centre
        r = c.callm(arc, 'rotated', degs)
    c.ensures('one-Arc-is-built', len(calls) == 1 and c.isinstance(r, 'path.Arc'))
    g = calls[0]
    c.ensures('end-points-rotated-about-the-origin', ops.And(ops.eq(g['start'], w * (p['start'] - o) + o), ops.eq(g['end'], w * (p['end'] - o) + o)))
    c.ensures('rotation-increased-by-degs', ops.eq(g['rotation'], p['rot'] + degs))
    c.ensures('radii-and-flags-unchanged', ops.And(ops.eq(g['radius'], ops.cx(p['rx'], p['ry'])),
                                                   g['large_arc'] is c.get(arc, 'large_arc'), g['sweep'] is c.get(arc, 'sweep')))


@contract('C10', 'path.scale', params=[{'form': f, '_no_bounded': True} for f in ('sx', 'sx,sx', 'sx,origin')])
def arc_uniform_scale_passes_the_scaled_endpoint_parameters(c, form):
    from contracts.c04 import arc_state
    arc, p = arc_state(c)
    calls = _arc_ctor_spy(c)
    s = c.real('s')
    c.assume(ops.ne(s, 0))
    if form == 'sx':
        o = 0
        r = c.callm(arc, 'scaled', s)
    elif form == 'sx,sx':
        o = 0
        r = c.callm(arc, 'scaled', s, s)
    else:
        o = c.cplx('o')
        r = c.callm(arc, 'scaled', s, origin=o)
    c.ensures('one-Arc-is-built', len(calls) == 1 and c.isinstance(r, 'path.Arc'))
    g = calls[0]
    c.ensures('end-points-scaled-about-the-origin', ops.And(ops.eq(g['start'], s * (p['start'] - o) + o), ops.eq(g['end'], s * (p['end'] - o) + o)))
    # the constructor drops the sign of the radii (C04), so s*r and |s|*r are the same request
    gr = g['radius']
    c.ensures('radii-scaled-by-|s|-(sign-immaterial)', ops.And(ops.eq(ops.re(gr) * ops.re(gr), s * s * p['rx'] * p['rx']), ops.eq(ops.im(gr) * ops.im(gr), s * s * p['ry'] * p['ry'])))
    c.ensures('rotation-and-flags-unchanged', ops.And(ops.eq(g['rotation'], p['rot']), g['large_arc'] is c.get(arc, 'large_arc'), g['sweep'] is c.get(arc, 'sweep')))


@contract('C10', 'path.scale', params=[{'_no_bounded': True}])
def arc_non_uniform_scale_is_refused(c):
    from contracts.c04 import arc_state
    arc, p = arc_state(c)
    calls = _arc_ctor_spy(c)
    sx, sy = c.real('sx'), c.real('sy')
    c.assume(ops.ne(sx, sy))
    out = c.outcome(lambda: c.callm(arc, 'scaled', sx, sy))
    c.ensures('raises-and-builds-nothing', out.kind == 'raise' and len(calls) == 0)
