"""C10 -- translated/rotated/scaled/transform commute with point evaluation."""
from pyvc.dsl import contract
from pyvc import ops
from specs import bez
from contracts.c03 import CLASSES, NAMES, mkseg
from contracts.c09 import _bp


def _register(fn, target, n, **kw):
    fn.__name__ = '%s_%s' % (fn.__name__, NAMES[n])
    globals()[fn.__name__] = fn
    contract('C10', target, **kw)(fn)


def affine(M, z):
    """the affine map with matrix rows M[0], M[1] applied to the point z"""
    x, y = ops.re(z), ops.im(z)
    return ops.cx(M[0][0] * x + M[0][1] * y + M[0][2], M[1][0] * x + M[1][1] * y + M[1][2])


for _n in (2, 3, 4):
    def _mk(n):
        def translated(c):
            P, seg = mkseg(c, n)
            z, t = c.cplx('z'), c.real('t')
            r = c.callm(seg, 'translated', z)
            c.ensures('same-class', c.isinstance(r, CLASSES[n]))
            c.ensures('translated(z).point(t)==point(t)+z', ops.eq(bez.bern(_bp(c, r), t), bez.bern(P, t) + z))
        _register(translated, 'path.translate', n)

        def rotated(c):
            P, seg = mkseg(c, n)
            o, t, degs = c.cplx('o'), c.real('t'), c.real('degs')
            co, si = c.cos_sin_deg(degs)
            w = ops.cx(co, si)
            r = c.callm(seg, 'rotated', degs, o)
            c.ensures('same-class', c.isinstance(r, CLASSES[n]))
            c.ensures('rotated(degs,origin).point(t)==w*(point(t)-origin)+origin',
                      ops.eq(bez.bern(_bp(c, r), t), w * (bez.bern(P, t) - o) + o))
            r2 = c.callm(seg, 'rotated', degs)
            o2 = bez.bern(P, c.const('0.5'))
            c.ensures('default-origin-is-point(0.5)',
                      ops.eq(bez.bern(_bp(c, r2), t), w * (bez.bern(P, t) - o2) + o2))
        _register(rotated, 'path.rotate', n)

        def scaled(c):
            P, seg = mkseg(c, n)
            o, t, sx, sy = c.cplx('o'), c.real('t'), c.real('sx'), c.real('sy')

            def img(z, a, b, org):
                d = z - org
                return org + ops.cx(a * ops.re(d), b * ops.im(d))
            r = c.callm(seg, 'scaled', sx, sy, o)
            c.ensures('same-class', c.isinstance(r, CLASSES[n]))
            c.ensures('scaled(sx,sy,origin).point(t)', ops.eq(bez.bern(_bp(c, r), t), img(bez.bern(P, t), sx, sy, o)))
            r1 = c.callm(seg, 'scaled', sx, origin=o)
            c.ensures('scaled(sx,origin=o).point(t)-uniform', ops.eq(bez.bern(_bp(c, r1), t), img(bez.bern(P, t), sx, sx, o)))
            r0 = c.callm(seg, 'scaled', sx, sy)
            c.ensures('scaled(sx,sy).point(t)-about-0', ops.eq(bez.bern(_bp(c, r0), t), img(bez.bern(P, t), sx, sy, 0)))
        _register(scaled, 'path.scale', n)

        def transform(c):
            P, seg = mkseg(c, n)
            t = c.real('t')
            M = [[c.real('m%d%d' % (i, j)) for j in range(3)] for i in range(2)]
            tf = c.matrix(M + [[0, 0, 1]])
            r = c.call('path.transform', seg, tf)
            c.ensures('same-class', c.isinstance(r, CLASSES[n]))
            c.ensures('transform(seg,M).point(t)==M(point(t))', ops.eq(bez.bern(_bp(c, r), t), affine(M, bez.bern(P, t))))
        _register(transform, 'path.transform', n)
    _mk(_n)


@contract('C10', 'path.transform', params=[{'n': n} for n in (2, 3, 4)])
def transform_identity_returns_same_object(c, n):
    P, seg = mkseg(c, n)
    tf = c.matrix([[1, 0, 0], [0, 1, 0], [0, 0, 1]])
    r = c.call('path.transform', seg, tf)
    c.ensures('identity-returns-the-curve-itself', r is seg)
