"""C08 -- Arc.bbox, for an Arc in any stored parameter state that satisfies the invariant the
constructor establishes (C04: -180 <= theta <= 180, 0 < |delta| < 360, positive radii).

Proved on the real method (its candidate loop merged into guarded list elements):
  * both end points are inside the box;
  * the angles the code solves for are critical: d/dt Re point(t) == 0 at a = atan_x + k*pi and
    d/dt Im point(t) == 0 at a = atan_y + k*pi;
  * every such critical parameter t_k in [0,1], for every k in -3..3, is inside the box;
  * k outside -3..3 cannot give a parameter in [0,1] (ghost lemma over a real-valued k), so the
    enumeration above is exhaustive and the code's own range(-4, 5) is wide enough;
  * every side of the box is the coordinate of an end point or of a critical point on the arc.
Assumed mathematics (listed): a differentiable coordinate function on [0,1] takes its extreme
values at the ends or at critical points, and the critical angles of x(a) = rx cos(phi) cos(a) -
ry sin(phi) sin(a) are exactly atan_x + k*pi (periodicity of tan)."""
from pyvc.dsl import contract
from pyvc import ops
from contracts.c04 import arc_state

Q = 'path.Arc.bbox'


@contract('C08', Q, params=[{'_no_bounded': True}], budget=120)
def arc_bbox_contains_the_ends_and_every_critical_point(c):
    from pyvc import trig, sym
    arc, p = arc_state(c)
    theta, delta, rx, ry, co, si = p['theta'], p['delta'], p['rx'], p['ry'], p['co'], p['si']
    inv = c.assumed(ops.And(ops.le(-180, theta), ops.le(theta, 180), ops.ne(delta, 0), ops.lt(-360, delta), ops.lt(delta, 360)))
    st = {}

    def spy(name):
        def hook(v):
            st[name] = v
            return v
        return hook
    c.cut_at(Q, 'atan_x', spy('atan_x'))
    c.cut_at(Q, 'atan_y', spy('atan_y'))
    c.merge_ifs('speculate')
    xmin, xmax, ymin, ymax = c.items(c.callm(arc, 'bbox'))
    S, E = p['start'], p['end']
    c.ensures('ends-inside', ops.And(ops.le(xmin, ops.re(S)), ops.le(ops.re(S), xmax), ops.le(xmin, ops.re(E)), ops.le(ops.re(E), xmax),
                                      ops.le(ymin, ops.im(S)), ops.le(ops.im(S), ymax), ops.le(ymin, ops.im(E)), ops.le(ops.im(E), ymax)))
    c.ensures('box-is-ordered', ops.And(ops.le(xmin, xmax), ops.le(ymin, ymax)))
    pi = trig.PI()
    for axis, A, lo, hi in (('x', st['atan_x'], xmin, xmax), ('y', st['atan_y'], ymin, ymax)):
        # the angle is critical for this coordinate (k*pi only flips the sign of both cos and sin)
        ca, sa = trig.cos_sin(A)
        if axis == 'x':
            dcoord = -rx * co * sa - ry * si * ca
        else:
            dcoord = -rx * si * sa + ry * co * ca
        c.ensures('d%s/da==0-at-atan_%s' % (axis, axis), ops.eq(dcoord, 0))
        for k in range(-3, 4):
            tk = ((A + pi * k) * (180 / pi) - theta) / delta
            z = c.callm(arc, 'point', tk)
            v = ops.re(z) if axis == 'x' else ops.im(z)
            c.ensures('critical-point-inside[%s,k=%d]' % (axis, k),
                      ops.Implies(ops.And(ops.le(0, tk), ops.le(tk, 1)), ops.And(ops.le(lo, v), ops.le(v, hi))))
        # exhaustiveness of k in -3..3, for a real-valued kappa and the angle in degrees
        D = c.real('D_' + axis)
        dD = c.assumed(ops.eq(D * pi, A * 180))
        rng = c.step('atan-in-degrees-within-[-90,90][%s]' % axis, ops.And(ops.le(-90, D), ops.le(D, 90)))
        kap, t = c.real('kappa_' + axis), c.real('t_' + axis)
        c.ensures('no-critical-parameter-in-[0,1]-for-|k|>=4[%s]' % axis,
                  ops.Implies(ops.And(ops.le(0, t), ops.le(t, 1), ops.eq(t * delta, D + 180 * kap - theta)),
                              ops.And(ops.lt(-4, kap), ops.lt(kap, 4))),
                  using=[rng, inv])


@contract('C08', Q, params=[{'_no_bounded': True}], budget=120)
def arc_bbox_sides_are_attained(c):
    """every side is the coordinate of an end point or of a point of the arc (a critical one)"""
    arc, p = arc_state(c)
    theta, delta = p['theta'], p['delta']
    c.assume(ops.And(ops.le(-180, theta), ops.le(theta, 180), ops.ne(delta, 0), ops.lt(-360, delta), ops.lt(delta, 360)))
    calls = []

    def point_spy(ip, f, args, kwargs):
        t = args[1]
        z = ip.run_func(f, list(args), kwargs)
        calls.append((t, z))
        return z
    c.ip.summaries['path.Arc.point'] = point_spy
    c.merge_ifs('speculate')
    box = c.items(c.callm(arc, 'bbox'))
    S, E = p['start'], p['end']
    for name, side, part in (('xmin', box[0], ops.re), ('xmax', box[1], ops.re), ('ymin', box[2], ops.im), ('ymax', box[3], ops.im)):
        alts = [ops.eq(side, part(S)), ops.eq(side, part(E))]
        for t, z in calls:
            alts.append(ops.And(ops.le(0, t), ops.le(t, 1), ops.eq(side, part(z))))
        c.ensures('%s-is-attained-on-the-arc' % name, ops.Or(*alts))
