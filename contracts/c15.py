"""C15 -- unit_tangent, normal and curvature are the differential geometry of the curve."""
from pyvc.dsl import contract
from pyvc import ops
from specs import bez
from contracts.c03 import CLASSES, NAMES, mkseg
from contracts.c05 import mkpath


@contract('C15', 'path.Line.unit_tangent')
def line_tangent_normal_curvature(c):
    P, seg = mkseg(c, 2)
    t = c.real('t')
    c.assume(ops.ne(P[0], P[1]))
    d = P[1] - P[0]
    u = c.callm(seg, 'unit_tangent', t)
    c.ensures('modulus-1', ops.eq(ops.norm2(u), 1))
    c.ensures('unit_tangent==(end-start)/|end-start|', ops.eq(u * ops.absv(d), d))
    nrm = c.callm(seg, 'normal', t)
    c.ensures('normal==-i*unit_tangent', ops.eq(nrm, ops.cx(0, -1) * u))
    c.ensures('curvature==0', ops.eq(c.callm(seg, 'curvature', t), 0))


def _reg(fn, target, n, **kw):
    fn.__name__ = '%s_%s' % (fn.__name__, NAMES[n])
    globals()[fn.__name__] = fn
    contract('C15', target, **kw)(fn)


for _n in (3, 4):
    def _mk(n):
        def unit_tangent_regular(c):
            P, seg = mkseg(c, n)
            t = c.real('t')
            d = bez.dbern(P, t, 1)
            c.assume(ops.ne(d, 0))
            u = c.callm(seg, 'unit_tangent', t)
            c.ensures('modulus-1', ops.eq(ops.norm2(u), 1))
            c.ensures('unit_tangent==derivative/|derivative|', ops.eq(u * ops.absv(d), d))
            nrm = c.callm(seg, 'normal', t)
            c.ensures('normal==-i*unit_tangent', ops.eq(nrm, ops.cx(0, -1) * u))
        _reg(unit_tangent_regular, 'path.bezier_unit_tangent', n, budget=180)

        def curvature_regular(c):
            P, seg = mkseg(c, n)
            t = c.real('t')
            d, dd = bez.dbern(P, t, 1), bez.dbern(P, t, 2)
            c.assume(ops.ne(d, 0))
            k = c.callm(seg, 'curvature', t)
            speed = ops.absv(d)
            c.ensures('curvature*|B\'|^3==|x\'y\'\'-y\'x\'\'|', ops.eq(k * speed * speed * speed, ops.absv(ops.cross(d, dd))))
            c.ensures('curvature>=0', ops.le(0, k))
        _reg(curvature_regular, 'path.segment_curvature', n, budget=180)

        def unit_tangent_at_a_start_with_coincident_control_points(c):
            """derivative vanishes at t=0 (first two control points coincide -- the normal case
            for S/T commands after a non-curve): the tangent is the limit of B'/|B'| from inside
            the interval, i.e. the direction of the first non-vanishing derivative, with its sign"""
            P, seg = mkseg(c, n)
            c.assume(ops.eq(P[0], P[1]))
            D = bez.dbern(P, 0, 2)
            c.assume(ops.ne(D, 0))
            u = c.callm(seg, 'unit_tangent', 0)
            c.ensures('modulus-1', ops.eq(ops.norm2(u), 1))
            c.ensures('points-in-the-direction-of-travel', ops.eq(u * ops.absv(D), D))
        _reg(unit_tangent_at_a_start_with_coincident_control_points, 'path.bezier_unit_tangent', n, budget=120)

        def unit_tangent_at_an_end_with_coincident_control_points(c):
            P, seg = mkseg(c, n)
            c.assume(ops.eq(P[-1], P[-2]))
            D = bez.dbern(P, 1, 2)
            c.assume(ops.ne(D, 0))
            u = c.callm(seg, 'unit_tangent', 1)
            c.ensures('modulus-1', ops.eq(ops.norm2(u), 1))
            # B'(t) ~ B''(1)(t-1) for t -> 1 from inside: direction -B''(1)
            c.ensures('points-in-the-direction-of-travel', ops.eq(u * ops.absv(D), -D))
        _reg(unit_tangent_at_an_end_with_coincident_control_points, 'path.bezier_unit_tangent', n, budget=120)
    _mk(_n)


@contract('C15', 'path.Path.unit_tangent', params=[{'kinds': k, '_no_bounded': True} for k in ['L', 'LQ', 'QLC']], level='per-shape')
def path_tangent_dispatches_through_T2t(c, kinds):
    """Path.unit_tangent(T) is the unit tangent of the segment and parameter that T2t gives -
    stated through the value, not through how it is computed: at a regular point
    unit_tangent*|B'(t)| == B'(t); where the last segment starts with two coincident control
    points and t == 0, it is the direction of travel (the limit), not an error"""
    path, segs, pts = mkpath(c, kinds)
    T = c.real('T')
    k0, t0 = len(segs) - 1, c.real('t_seg')
    c.ip.summaries['path.Path.T2t'] = lambda ip, f, a, k: (k0, t0)
    P = pts[k0]
    d = bez.dbern(P, t0, 1)
    c.assume(ops.ne(d, 0))
    r = c.callm(path, 'unit_tangent', T)
    c.ensures("unit_tangent(T)*|Bk'(t)|==Bk'(t)-with-(k,t)=T2t(T)", ops.eq(r * ops.absv(d), d))
    c.ensures('normal(T)==-i*unit_tangent(T)', ops.eq(c.callm(path, 'normal', T), ops.cx(0, -1) * r))


@contract('C15', 'path.Path.unit_tangent', params=[{'kinds': k, '_no_bounded': True} for k in ['C', 'LC']], level='per-shape', budget=120)
def path_tangent_at_a_singular_start_is_the_direction_of_travel(c, kinds):
    path, segs, pts = mkpath(c, kinds)
    k0 = len(segs) - 1
    P = pts[k0]
    c.assume(ops.eq(P[0], P[1]))
    D = bez.dbern(P, 0, 2)
    c.assume(ops.ne(D, 0))
    c.set(segs[k0], 'control1', P[0])
    c.ip.summaries['path.Path.T2t'] = lambda ip, f, a, k: (k0, 0)
    r = c.callm(path, 'unit_tangent', c.real('T'))
    c.ensures('modulus-1', ops.eq(ops.norm2(r), 1))
    c.ensures('points-in-the-direction-of-travel', ops.eq(r * ops.absv(D), D))


@contract('C15', 'path.bezier_unit_tangent', params=[{'end': e} for e in (0, 1)], budget=120)
def cubic_unit_tangent_where_the_first_two_derivatives_vanish(c, end):
    """three coincident control points at an end: B' and B'' vanish there, the curve is
    P_end + s^3 * (P3 - P0) near it, so the direction of travel is (P3 - P0)/|P3 - P0| at both ends"""
    P, seg = mkseg(c, 4)
    if end == 0:
        c.assume(ops.And(ops.eq(P[0], P[1]), ops.eq(P[1], P[2])))
    else:
        c.assume(ops.And(ops.eq(P[1], P[2]), ops.eq(P[2], P[3])))
    d = P[3] - P[0]
    c.assume(ops.ne(d, 0))
    u = c.callm(seg, 'unit_tangent', end)
    c.ensures('modulus-1', ops.eq(ops.norm2(u), 1))
    c.ensures('points-in-the-direction-of-travel', ops.eq(u * ops.absv(d), d))


# ----------------------------------------------------------------------------- arcs
# For an Arc in ANY stored parameter state (positive radii, delta != 0): the reference derivative
# is d/dt of the executed point(t) (differentiated through the trig atoms), not Arc.derivative.

def _arc_regular(c):
    from contracts.c04 import arc_state
    arc, p = arc_state(c)
    t = c.real('t')
    c.assume(ops.ne(p['delta'], 0))
    z = c.callm(arc, 'point', t)
    d = c.ddt(z, t)
    dd = c.ddt(d, t)
    return arc, p, t, d, dd


@contract('C15', 'path.Arc.unit_tangent', params=[{'_no_bounded': True}], budget=120)
def arc_unit_tangent_and_normal(c):
    arc, p, t, d, dd = _arc_regular(c)
    nz = c.step('an-arc-is-regular:d/dt-point(t)!=0', ops.ne(d, 0))
    st = {}

    def cut_dseg(v):
        # the derivative the method divides by is the t-derivative of point(t); continue with
        # an abstract non-zero complex number D that stands for it
        c.step('cut:derivative(t)==d/dt-point(t)', ops.eq(v, d))
        D = c.cplx('D')
        st['def'] = c.assumed(ops.eq(D, d))
        st['nz'] = c.step('cut:D!=0', ops.ne(D, 0), using=[st['def'], nz])
        st['D'] = D
        return D
    c.cut_at('path.Arc.unit_tangent', 'dseg', cut_dseg)
    u = c.callm(arc, 'unit_tangent', t)
    D = st['D']
    w = ops.absv(D)
    wf = c.witness_facts(w)
    m1 = c.step('modulus-1', ops.eq(ops.norm2(u), 1), using=wf + [st['nz']])
    c.ensures('unit_tangent*|D|==D-where-D==d/dt-point(t)', ops.eq(u * w, D), using=wf + [st['nz']])
    c.ensures('normal==-i*unit_tangent', ops.eq(c.callm(arc, 'normal', t), ops.cx(0, -1) * u))


@contract('C15', 'path.Arc.curvature', params=[{'_no_bounded': True}], budget=120)
def arc_curvature(c):
    arc, p, t, d, dd = _arc_regular(c)
    k = c.callm(arc, 'curvature', t)
    speed = ops.absv(d)
    c.ensures('curvature*|z\'|^3==|x\'y\'\'-y\'x\'\'|', ops.eq(k * speed * speed * speed, ops.absv(ops.cross(d, dd))))
    c.ensures('curvature>=0', ops.le(0, k))


@contract('C15', 'path.Arc.curvature', params=[{'_no_bounded': True}], budget=120)
def circular_arc_curvature_is_one_over_r(c):
    from contracts.c04 import arc_state
    arc, p = arc_state(c)
    t = c.real('t')
    c.assume(ops.And(ops.ne(p['delta'], 0), ops.eq(p['rx'], p['ry'])))
    k = c.callm(arc, 'curvature', t)
    c.ensures('curvature*r==1', ops.eq(k * p['rx'], 1))


# ----------------------------------------------------------------------- Path.curvature
# With T2t, Path.derivative and joins_smoothly_with entering through call-site contracts
# (abstract results), the dispatch of Path.curvature: the smoothness test is made exactly when T
# sits on a joint (t close to 0 or 1, not at the free ends of an open path), it is asked of the
# two segments that meet THERE in the order (later).joins_smoothly_with(earlier), the result is
# inf exactly when that test fails, and otherwise the curvature formula of the path's own first
# and second derivative at T.

@contract('C15', 'path.Path.curvature',
          params=[{'kinds': kinds, 'k': k, 'closed': cl, 'where': w, '_no_bounded': True}
                  for kinds in ('LQC',) for k in (0, 1, 2) for cl in (False, True) for w in ('start', 'end', 'inside')], level='per-shape')
def path_curvature_dispatch(c, kinds, k, closed, where):
    from contracts.c05 import mkpath
    from contracts.c14 import mkclosed
    from pyvc import sym
    path, segs, pts = mkclosed(c, kinds) if closed else mkpath(c, kinds, continuous=True)
    if not closed:
        c.assume(ops.ne(pts[0][0], pts[-1][-1]))
    n = len(segs)
    T, t = c.real('T'), c.real('t')
    band0, band1 = ops.le(ops.absv(t), c.const('1e-8')), ops.le(ops.absv(t - 1), c.const('1e-8') + c.const('1e-5'))
    if where == 'start':
        c.assume(band0)
    elif where == 'end':
        c.assume(band1)
    else:
        c.assume(ops.And(ops.Not(band0), ops.Not(band1), ops.le(0, t), ops.le(t, 1)))
    c.ip.summaries['path.Path.T2t'] = lambda ip, f, a, kw: (k, t)
    D = {1: c.cplx('D1'), 2: c.cplx('D2')}
    c.assume(ops.ne(D[1], 0))

    def derivative(ip, f, a, kw):
        nn = a[2] if len(a) > 2 else kw.get('n', 1)
        return D[nn]
    c.ip.summaries['path.Path.derivative'] = derivative
    tests = []
    J = c.bool('joins')

    def jsw(ip, f, a, kw):
        tests.append((a[0], a[1]))
        return J
    for cls in ('Line', 'QuadraticBezier', 'CubicBezier'):
        c.ip.summaries['path.%s.joins_smoothly_with' % cls] = jsw
    r = c.callm(path, 'curvature', T)
    on_joint = (where == 'start' and (k != 0 or closed)) or (where == 'end' and (k != n - 1 or closed))
    c.ensures('smoothness-is-tested-exactly-on-a-joint', len(tests) == (1 if on_joint else 0))
    if on_joint and len(tests) == 1:
        later, earlier = tests[0]
        ia, ib = [i for i, s in enumerate(segs) if s is later][0], [i for i, s in enumerate(segs) if s is earlier][0]
        want = ((k - 1) % n, k) if where == 'start' else (k, (k + 1) % n)
        c.ensures('the-two-segments-meeting-at-T-are-asked:(later).joins_smoothly_with(earlier)', (ib, ia) == want)
    kappa = ops.absv(ops.cross(D[1], D[2]))
    speed = ops.absv(D[1])
    from pyvc import sym as _sym
    is_inf = (isinstance(r, float) and r == float('inf')) or not c.is_finite(r) or isinstance(r, type(_sym.INF))
    if is_inf:
        c.ensures('inf-only-where-the-path-is-not-smooth', on_joint and c.known(ops.Not(J)))
    else:
        c.ensures('finite-only-where-the-path-is-smooth', (not on_joint) or c.known(J))
        c.ensures("curvature*|z'|^3==|x'y''-y'x''|", ops.eq(r * speed * speed * speed, kappa))


@contract('C15', 'path.Path.curvature', params=[{'_bounded_only': True}])
def path_curvature_at_joints_sampled(c):
    """bounded stand-in: at a smooth joint (bit-identical unit tangents: collinear lines, a line
    continued by a cubic's first control leg) the curvature is the finite one-sided value, at a
    corner it is inf; strictly inside a segment it is the segment's curvature"""
    import svgpathtools.path as sp
    a = c.cplx('a')
    # a direction with exactly representable components, so that scaled copies have bit-identical unit tangents
    d = complex(3, 4) if c.bool('dir') else complex(1, 0)
    l0, l1 = float(int(abs(c.real('l0')) * 7) % 9 + 1), float(int(abs(c.real('l1')) * 7) % 9 + 1)
    b = a + l0 * d
    kind = int(abs(c.real('kind')) * 10) % 3
    if kind == 0:
        p = sp.Path(sp.Line(a, b), sp.Line(b, b + l1 * d))
        want_inf = False
    elif kind == 1:
        p = sp.Path(sp.Line(a, b), sp.Line(b, b + l1 * d * 1j))
        want_inf = True
    else:
        p = sp.Path(sp.Line(a, b), sp.CubicBezier(b, b + l1 * d, b + l1 * d * (2 + 1j), b + l1 * d * (3 + 3j)))
        want_inf = False
    if kind != 1:
        c.assume(abs(p[0].unit_tangent(1) - p[1].unit_tangent(0)) == 0)
    T = p.t2T(0, 1)
    k = p.curvature(T)
    c.ensures('inf-exactly-at-a-corner', (k == float('inf')) == want_inf)
    if kind == 0:
        c.ensures('zero-on-a-straight-joint', k == 0)
    Tin = p.t2T(1, 0.5)
    c.ensures('inside-a-segment-it-is-the-segment-curvature', abs(p.curvature(Tin) - p[1].curvature(0.5)) <= 1e-9 * (1 + abs(p[1].curvature(0.5))))


@contract('C15', 'path.rotate', params=[{'kind': k, 'op': o, '_bounded_only': True}
                                        for k in ('L', 'Q', 'C', 'A') for o in ('translated', 'rotated', 'scaled', 'reversed')])
def tangent_and_curvature_transform_with_the_curve_sampled(c, kind, op):
    """bounded stand-in for the last clause of C15: unit_tangent, normal and curvature of the
    translated / rotated / uniformly scaled / reversed segment are those of the segment, carried
    along (tangent turned by the rotation, flipped by a negative scale factor, negated by
    reversal; curvature unchanged, divided by |s| under scaling).  Regular points only."""
    import cmath
    import math
    import svgpathtools.path as sp

    def f(z):
        return complex(math.fmod(z.real * 12345.678, 10), math.fmod(z.imag * 12345.678, 10))
    if kind == 'A':
        rx, ry = 1 + abs(c.real('rx') * 3.7) % 3, 1 + abs(c.real('ry') * 3.7) % 3
        phi = [0.0, 30.0, 77.0, -45.0, 90.0][int(abs(c.real('phi')) * 10) % 5]
        a0 = (c.real('a0') * 100) % 360 - 180
        d = (20 + abs(c.real('d')) * 100 % 320) * (1 if c.bool('sweep') else -1)
        w = cmath.exp(1j * math.radians(phi))
        ctr = f(c.cplx('ctr'))

        def pt(a):
            return ctr + w * complex(rx * math.cos(math.radians(a)), ry * math.sin(math.radians(a)))
        c.assume(abs(pt(a0) - pt(a0 + d)) > 1e-2)
        seg = sp.Arc(pt(a0), complex(rx, ry), phi, abs(d) > 180, d > 0, pt(a0 + d))
    else:
        n = {'L': 2, 'Q': 3, 'C': 4}[kind]
        P = [f(c.cplx('p%d' % i)) for i in range(n)]
        c.assume(all(abs(P[i] - P[i + 1]) > 0.3 for i in range(n - 1)))
        seg = {2: sp.Line, 3: sp.QuadraticBezier, 4: sp.CubicBezier}[n](*P)
    t = 0.05 + 0.9 * (abs(c.real('t')) % 1)
    c.assume(abs(seg.derivative(t)) > 1e-2)                      # a regular point
    T, N, K = seg.unit_tangent(t), seg.normal(t), seg.curvature(t)
    if op == 'translated':
        img, tt, turn, kscale = seg.translated(f(c.cplx('z'))), t, 1, 1
    elif op == 'rotated':
        degs = (c.real('degs') * 100) % 360 - 180
        o = f(c.cplx('o'))
        img, tt, turn, kscale = (seg.rotated(degs, o) if c.bool('origin_given') else seg.rotated(degs)), t, cmath.exp(1j * math.radians(degs)), 1
    elif op == 'scaled':
        s = (0.2 + abs(c.real('s') * 7.3) % 4) * (1 if c.bool('positive') or kind == 'A' else -1)
        img, tt, turn, kscale = seg.scaled(s, origin=f(c.cplx('o'))), t, (1 if s > 0 else -1), 1 / abs(s)
    else:
        img, tt, turn, kscale = seg.reversed(), 1 - t, -1, 1
    c.ensures('same-class', type(img) is type(seg))
    c.ensures('unit_tangent-is-carried-along', abs(img.unit_tangent(tt) - turn * T) <= 1e-6)
    c.ensures('normal-is-carried-along', abs(img.normal(tt) - turn * N) <= 1e-6)
    c.ensures('curvature-is-carried-along', abs(img.curvature(tt) - kscale * K) <= 1e-6 * (1 + abs(K)) * max(1, kscale))
