"""C09 -- reversed/split/cropped trace the same curve under the documented parameter map."""
from pyvc.dsl import contract
from pyvc import ops
from specs import bez
from contracts.c03 import CLASSES, NAMES, mkseg


def _bp(c, seg):
    return list(c.items(c.callm(seg, 'bpoints')))


def _register(fn, method, n, **kw):
    fn.__name__ = '%s_%s' % (fn.__name__, NAMES[n])
    globals()[fn.__name__] = fn
    contract('C09', '%s.%s' % (CLASSES[n], method), **kw)(fn)


for _n in (2, 3, 4):
    def _mk(n):
        def reversed_(c):
            P, seg = mkseg(c, n)
            u = c.real('u')
            rev = c.callm(seg, 'reversed')
            c.ensures('same-class', c.isinstance(rev, CLASSES[n]))
            c.ensures('reversed().point(u)==point(1-u)', ops.eq(bez.bern(_bp(c, rev), u), bez.bern(P, 1 - u)))
            c.ensures('control-points-reversed', ops.eq(_bp(c, rev), P[::-1]))
        _register(reversed_, 'reversed', n)

        def split(c):
            P, seg = mkseg(c, n)
            t, u = c.real('t'), c.real('u')
            a, b = c.items(c.callm(seg, 'split', t))
            c.ensures('same-class', ops.And(c.isinstance(a, CLASSES[n]), c.isinstance(b, CLASSES[n])))
            A, B = _bp(c, a), _bp(c, b)
            c.ensures('pieces-meet-at-point(t)', ops.And(ops.eq(A[-1], B[0]), ops.eq(A[-1], bez.bern(P, t))))
            c.ensures('first-piece-starts-at-start,second-ends-at-end', ops.And(ops.eq(A[0], P[0]), ops.eq(B[-1], P[-1])))
            c.ensures('left.point(u)==point(u*t)', ops.eq(bez.bern(A, u), bez.bern(P, u * t)))
            c.ensures('right.point(u)==point(t+u*(1-t))', ops.eq(bez.bern(B, u), bez.bern(P, t + u * (1 - t))))
        _register(split, 'split', n)

        def cropped(c):
            P, seg = mkseg(c, n)
            t0, t1, u = c.real('t0'), c.real('t1'), c.real('u')
            c.assume(ops.And(ops.le(0, t0), ops.lt(t0, t1), ops.le(t1, 1)))
            if n > 2:
                _install_radialrange_contract(c)
            r = c.callm(seg, 'cropped', t0, t1)
            c.ensures('same-class', c.isinstance(r, CLASSES[n]))
            R = _bp(c, r)
            c.ensures('starts-at-point(t0)', ops.eq(R[0], bez.bern(P, t0)))
            c.ensures('ends-at-point(t1)', ops.eq(R[-1], bez.bern(P, t1)))
            c.ensures('cropped(t0,t1).point(u)==point(t0+u*(t1-t0))',
                      ops.eq(bez.bern(R, u), bez.bern(P, t0 + u * (t1 - t0))))
        _register(cropped, 'cropped', n, budget=120)
    _mk(_n)


def _install_radialrange_contract(c):
    """call-site contract of Quadratic/CubicBezier.radialrange (its obligations: C13):
    returns ((dmin,tmin),(dmax,tmax)) with tmin in [0,1], dmin = |point(tmin)-origin| and
    dmin <= |point(tau)-origin| for every tau in [0,1].  The universally quantified part is
    instantiated at the one tau the caller's argument needs: the parameter at which the
    trimmed piece passes through the query point."""
    if c.mode != 'sym':
        return
    from pyvc import sym

    def rr(ip, f, args, kwargs):
        seg, origin = args[0], args[1]
        P = list(ip.iterate(ip.call(ip.getattr(seg, 'bpoints'), [], {})))
        tmin, tmax = ip.ctx.fresh_real('rr_tmin'), ip.ctx.fresh_real('rr_tmax')
        dmin, dmax = ip.ctx.fresh_real('rr_dmin'), ip.ctx.fresh_real('rr_dmax')
        ip.ctx.assume(sym.zbool(sym.And(sym.le(0, tmin), sym.le(tmin, 1), sym.le(0, tmax), sym.le(tmax, 1),
                                        sym.le(0, dmin), sym.le(dmin, dmax),
                                        sym.eq(dmin * dmin, ops.norm2(bez.bern(P, tmin) - origin)),
                                        sym.eq(dmax * dmax, ops.norm2(bez.bern(P, tmax) - origin)))))
        for tau in getattr(c, '_rr_instances', []):
            ip.ctx.assume(sym.zbool(sym.Implies(sym.And(sym.le(0, tau), sym.le(tau, 1)),
                                                sym.le(dmin * dmin, ops.norm2(bez.bern(P, tau) - origin)))))
        return ((dmin, tmin), (dmax, tmax))
    c._rr_instances = []
    t0, t1 = c.real('t0'), c.real('t1')
    # the point self.point(t1) lies on the piece trimmed at t0 at parameter (t1-t0)/(1-t0)
    c._rr_instances.append((t1 - t0) / (1 - t0))
    for cls in ('QuadraticBezier', 'CubicBezier'):
        c.ip.summaries['path.%s.radialrange' % cls] = rr


@contract('C09', 'path.crop_bezier', params=[{'n': 3}, {'n': 4}], budget=120)
def crop_bezier_branches(c, n):
    """the two branches that do not re-locate t1: exact for all curves"""
    P, seg = mkseg(c, n)
    t, u = c.real('t'), c.real('u')
    c.assume(ops.And(ops.lt(0, t), ops.lt(t, 1)))
    a = c.call('path.crop_bezier', seg, 0, t)
    c.ensures('crop(0,t).point(u)==point(u*t)', ops.eq(bez.bern(_bp(c, a), u), bez.bern(P, u * t)))
    b = c.call('path.crop_bezier', seg, t, 1)
    c.ensures('crop(t,1).point(u)==point(t+u*(1-t))', ops.eq(bez.bern(_bp(c, b), u), bez.bern(P, t + u * (1 - t))))


# ---------------------------------------------------------------- paths

from contracts.c05 import mkpath  # noqa: E402


@contract('C09', 'path.Path.reversed', params=[{'kinds': k} for k in ['L', 'C', 'LQ', 'QLC', 'CCL']], level='per-shape')
def path_reversed(c, kinds):
    path, segs, pts = mkpath(c, kinds)
    n = len(segs)
    u = c.real('u')
    rev = c.callm(path, 'reversed')
    rs = list(c.items(rev))
    c.ensures('same-number-of-segments', len(rs) == n)
    for i in range(n):
        j = n - 1 - i
        c.ensures('segment-%d-is-the-reversal-of-segment-%d' % (i, j),
                  ops.And(c.isinstance(rs[i], {2: 'path.Line', 3: 'path.QuadraticBezier', 4: 'path.CubicBezier'}[len(pts[j])]),
                          ops.eq(bez.bern(_bp(c, rs[i]), u), bez.bern(pts[j], 1 - u))))
    c.ensures('start/end-swapped', ops.And(ops.eq(c.get(rev, 'start'), pts[-1][-1]), ops.eq(c.get(rev, 'end'), pts[0][0])))


@contract('C09', 'path.Path.reversed', params=[{'kinds': k, '_no_bounded': True} for k in ['LQ', 'QLC', 'CCL']], level='per-shape')
def path_reversed_of_a_path_with_warm_caches_is_a_consistent_path(c, kinds):
    """the copy is a Path in a consistent state whatever was queried on the original before:
    if it carries cached length fractions at all, they are those of ITS segments in ITS order
    (so that point(T), T2t, length(T0,T1), cropped on the copy are right)"""
    from contracts.c16 import check_inv
    path, segs, pts = mkpath(c, kinds)
    c.callm(path, '_calc_lengths')              # what any length()/point(T)/T2t query does first
    rev = c.callm(path, 'reversed')
    cur = list(c.get(rev, '_segments'))
    check_inv(c, rev, cur, 'reversed()')
    c.ensures('original-untouched', all(a is b for a, b in zip(list(c.get(path, '_segments')), segs)) and len(list(c.get(path, '_segments'))) == len(segs))


@contract('C09', 'path.Path.cropped', params=[{'closed': cl, '_no_bounded': True} for cl in (False, True)], level='per-shape', budget=120)
def path_cropped_returns_a_consistent_path_whatever_was_cached(c, closed):
    """the crop of a path whose caches are warm is a Path in a consistent state (C16's invariant)"""
    from contracts.c16 import check_inv
    path, segs, V = _polyline(c, 3, closed)
    c.callm(path, '_calc_lengths')
    T0, T1 = c.real('T0'), c.real('T1')
    c.assume(ops.And(ops.lt(0, T0), ops.lt(T0, T1), ops.lt(T1, 1)))
    out = c.outcome(lambda: c.callm(path, 'cropped', T0, T1))
    if out.kind != 'ok':
        c.ensures('returns', False, exception=out.exc)
        return
    r = out.value
    c.ensures('a-new-Path-object', r is not path)
    check_inv(c, r, list(c.get(r, '_segments')), 'cropped')


def _polyline(c, n, closed):
    """continuous polyline; segment lengths enter through the call-site contract of Line.length
    (C06): positive numbers"""
    V = [c.cplx('v%d' % i) for i in range(n + 1)]
    if closed:
        V[n] = V[0]
    for i in range(n):
        c.assume(ops.ne(V[i], V[i + 1]))
    segs = [c.new('path.Line', V[i], V[i + 1]) for i in range(n)]
    if c.mode == 'sym':
        lens = [c.real('len%d' % i) for i in range(n)]
        for x in lens:
            c.assume(ops.lt(0, x))

        def line_length(ip, f, args, kwargs):
            i = [k for k, sg in enumerate(segs) if sg is args[0]]
            if not i or len(args) > 1 or any(k in kwargs for k in ('t0', 't1')):
                return ip.run_func(f, args, kwargs)
            return lens[i[0]]
        c.ip.summaries['path.Line.length'] = line_length
    else:
        lens = [ops.absv(V[i + 1] - V[i]) for i in range(n)]
    c._poly_lens = lens
    return c.new('path.Path', *segs), segs, V


@contract('C09', 'path.Path.cropped', params=[{'n': 2, 'closed': False, 'wrap': False, '_no_bounded': True}, {'n': 3, 'closed': False, 'wrap': False, '_no_bounded': True},
                                              {'n': 3, 'closed': True, 'wrap': False, '_no_bounded': True},
                                              {'n': 3, 'closed': True, 'wrap': True, '_no_bounded': True}],
          level='per-shape', budget=120)
def path_cropped(c, n, closed, wrap):
    """continuous polylines: cropped(T0,T1) starts at point(T0), ends at point(T1), consecutive
    pieces are joined, whole segments in between appear in order (wrap-around for closed paths)"""
    path, segs, V = _polyline(c, n, closed)
    T0, T1 = c.real('T0'), c.real('T1')
    c.assume(ops.And(ops.le(0, T0), ops.le(T0, 1), ops.le(0, T1), ops.le(T1, 1), ops.ne(T0, T1)))
    if wrap:
        c.assume(ops.And(ops.lt(T1, T0), ops.Not(ops.And(ops.eq(T0, 1), ops.eq(T1, 0)))))
    else:
        c.assume(ops.lt(T0, T1))
    # crop parameters are exactly at a joint or clearly away from it: the code snaps a crop point
    # whose segment parameter is np.isclose to 0 or 1 (|t| <= 1e-8, |t-1| <= 1e-5+1e-8) to the
    # joint on purpose, so as not to create degenerate pieces; that band is excluded here
    lens = c._poly_lens
    tot = sum(lens[1:], lens[0])
    J = [sum(lens[:k], 0) / tot for k in range(n + 1)]
    for T in (T0, T1):
        for Jk in J:
            c.assume(ops.Or(ops.eq(T, Jk), ops.lt(c.const('2e-5'), ops.absv(T - Jk))))
    p0 = c.callm(path, 'point', T0)
    p1 = c.callm(path, 'point', T1)
    out = c.outcome(lambda: c.callm(path, 'cropped', T0, T1))
    c.ensures('returns', out.kind == 'ok', exception=out.exc)
    if out.kind != 'ok':
        return
    pieces = list(c.items(out.value))
    c.ensures('at-least-one-piece', len(pieces) >= 1)
    c.ensures('starts-at-point(T0)', ops.eq(c.get(pieces[0], 'start'), p0))
    c.ensures('ends-at-point(T1)', ops.eq(c.get(pieces[-1], 'end'), p1))
    for i in range(len(pieces) - 1):
        c.ensures('pieces-%d-and-%d-are-joined' % (i, i + 1), ops.eq(c.get(pieces[i], 'end'), c.get(pieces[i + 1], 'start')))
    c.ensures('no-more-pieces-than-segments-plus-one', len(pieces) <= n + 1)
    # every piece lies on a segment of the path: it is a whole segment or a sub-segment of one
    for i, pc in enumerate(pieces):
        on = []
        for k in range(n):
            d = V[k + 1] - V[k]
            a, b = c.get(pc, 'start') - V[k], c.get(pc, 'end') - V[k]
            la, lb = ops.dot(a, d), ops.dot(b, d)
            on.append(ops.And(ops.eq(ops.cross(a, d), 0), ops.eq(ops.cross(b, d), 0), ops.le(0, la), ops.le(la, lb), ops.le(lb, ops.norm2(d))))
        c.ensures('piece-%d-is-a-forward-sub-segment-of-some-segment' % i, ops.Or(*on))


@contract('C09', 'path.Path.cropped', params=[{'_no_bounded': True}])
def path_cropped_backwards_on_an_open_path_is_refused(c):
    path, segs, V = _polyline(c, 2, False)
    c.assume(ops.ne(V[0], V[2]))
    T0, T1 = c.real('T0'), c.real('T1')
    c.assume(ops.And(ops.lt(0, T1), ops.lt(T1, T0), ops.lt(T0, 1)))
    out = c.outcome(lambda: c.callm(path, 'cropped', T0, T1))
    c.ensures('ValueError', out.kind == 'raise' and out.exc == 'ValueError')


@contract('C09', 'path.Path.cropped', params=[{'kinds': k, 'closed': cl, '_bounded_only': True} for k in ('LL', 'LQC', 'CLC') for cl in (False, True)])
def path_cropped_sampled(c, kinds, closed):
    """bounded stand-in: crops of mixed paths (wrap-around for closed ones), incl. length"""
    from contracts.c05 import mkpath
    path, segs, pts = mkpath(c, kinds, continuous=True)
    if closed:
        segs[-1].end = pts[0][0]
        path = c.new('path.Path', *segs)
    for s in segs:
        c.assume(s.start != s.end)
    T0, T1 = abs(c.real('T0')) % 1.0, abs(c.real('T1')) % 1.0
    c.assume(abs(T0 - T1) > 1e-3)
    if not closed:
        T0, T1 = min(T0, T1), max(T0, T1)
    # stay away from joints by more than the snapping tolerance
    for k in range(1, len(segs)):
        Tk = path.t2T(k, 0)
        c.assume(abs(T0 - Tk) > 1e-6 and abs(T1 - Tk) > 1e-6)
    cr = path.cropped(T0, T1)
    sc = max(abs(z) for P in pts for z in P) + 1e-300
    c.ensures('starts-at-point(T0)', abs(cr.start - path.point(T0)) <= 1e-7 * sc)
    c.ensures('ends-at-point(T1)', abs(cr.end - path.point(T1)) <= 1e-7 * sc)
    c.ensures('pieces-joined', all(abs(cr[i].end - cr[i + 1].start) <= 1e-9 * sc for i in range(len(cr) - 1)))
    L = path.length()
    want = path.length(T0, T1) if T0 < T1 else path.length(T0, 1) + path.length(0, T1)
    c.ensures('length-is-length(T0,T1)', abs(cr.length() - want) <= 1e-6 * L)


@contract('C09', 'path.Path.cropped', params=[{'laps': n, '_bounded_only': True} for n in (2, 3)])
def path_cropped_over_repeated_segments_sampled(c, laps):
    """bounded stand-in: a path that runs over the same edges several times, so that it contains
    segments that are EQUAL by value (a polyline a-b-a-b-..., or a closed triangle walked
    `laps` times): crops that start exactly on a joint or inside"""
    import svgpathtools.path as sp
    a, b, d = c.cplx('a'), c.cplx('b'), c.cplx('d')
    c.assume(abs(a - b) > 1e-3 and abs(b - d) > 1e-3 and abs(d - a) > 1e-3)
    tri = c.bool('triangle')
    if tri:
        segs = []
        for _ in range(laps):
            segs += [sp.Line(a, b), sp.Line(b, d), sp.Line(d, a)]
    else:
        V = [a, b] * (laps + 1)
        segs = [sp.Line(V[i], V[i + 1]) for i in range(len(V) - 1)]
    path = sp.Path(*segs)
    n = len(segs)
    # T0 exactly on a joint (every other sample) or anywhere; T1 later, inside a segment
    k0 = int(abs(c.real('k0')) * 7) % n
    T0 = path.t2T(k0, 0) if c.bool('on_joint') else abs(c.real('T0')) % 1.0
    T1 = T0 + (1 - T0) * (0.05 + 0.9 * (abs(c.real('u')) % 1.0))
    c.assume(T0 < T1 <= 1 and T1 - T0 > 1e-3)
    for k in range(1, n):
        Tk = path.t2T(k, 0)
        c.assume(abs(T1 - Tk) > 1e-6 and (abs(T0 - Tk) > 1e-6 or T0 == Tk))
    cr = path.cropped(T0, T1)
    sc = max(abs(a), abs(b), abs(d)) + 1e-300
    c.ensures('starts-at-point(T0)', abs(cr.start - path.point(T0)) <= 1e-7 * sc)
    c.ensures('ends-at-point(T1)', abs(cr.end - path.point(T1)) <= 1e-7 * sc)
    c.ensures('pieces-joined', all(abs(cr[i].end - cr[i + 1].start) <= 1e-9 * sc for i in range(len(cr) - 1)))
    c.ensures('length-is-length(T0,T1)', abs(cr.length() - path.length(T0, T1)) <= 1e-6 * path.length())


@contract('C09', 'path.Path.cropped', params=[{'closed': b, '_bounded_only': True} for b in (False, True)])
def path_cropped_with_an_end_next_to_a_joint_sampled(c, closed):
    """bounded stand-in for the band the deductive Path.cropped contracts leave out: T0 and/or T1
    exactly on a joint or a few 1e-10 / 1e-12 / ulps next to it, where the code snaps by isclose.
    Continuous paths of 3..5 segments (Line / Quadratic / Cubic), wrap-around crops when closed.
    The crop starts at point(T0), ends at point(T1), is joined, and has the length of that part."""
    import svgpathtools.path as sp
    n = 3 + int(abs(c.real('n')) * 10) % 3
    V = [_fold(c.cplx('v%d' % i)) for i in range(n + 1)]
    if closed:
        V[n] = V[0]
    for i in range(n):
        c.assume(abs(V[i] - V[i + 1]) > 0.5)
    segs = []
    for i in range(n):
        kind = int(abs(c.real('k%d' % i)) * 10) % 3
        a, b = V[i], V[i + 1]
        if kind == 0:
            segs.append(sp.Line(a, b))
        elif kind == 1:
            segs.append(sp.QuadraticBezier(a, (a + b) / 2 + 0.3j * (b - a) * (1 + abs(c.real('q%d' % i)) % 1), b))
        else:
            segs.append(sp.CubicBezier(a, a + (b - a) * (0.3 + 0.2j), b - (b - a) * (0.3 + 0.25j * (abs(c.real('q%d' % i)) % 1)), b))
    path = sp.Path(*segs)
    OFFS = [0.0, 1e-10, -1e-10, 1e-12, -1e-12, 3e-16, -3e-16, 1e-9, -1e-9]

    def pick(tag):
        if c.bool(tag + '.inside'):
            return 0.02 + 0.96 * (abs(c.real(tag)) % 1)
        k = 1 + int(abs(c.real(tag + '.joint')) * 10) % (n - 1)
        return path.t2T(k, 0) + OFFS[int(abs(c.real(tag + '.off')) * 10) % len(OFFS)]
    T0, T1 = pick('T0'), pick('T1')
    c.assume(0 < T0 < 1 and 0 < T1 < 1 and abs(T1 - T0) > 0.02)
    if T0 > T1 and not closed:
        T0, T1 = T1, T0
    L = path.length()
    want = path.length(T0, T1) if T0 < T1 else path.length(T0, 1) + path.length(0, T1)
    cr = path.cropped(T0, T1)
    c.ensures('starts-at-point(T0)', abs(cr.start - path.point(T0)) <= 1e-6 * L)
    c.ensures('ends-at-point(T1)', abs(cr.end - path.point(T1)) <= 1e-6 * L)
    c.ensures('pieces-joined', all(abs(cr[i].end - cr[i + 1].start) <= 1e-6 * L for i in range(len(cr) - 1)))
    c.ensures('length-is-length(T0,T1)', abs(cr.length() - want) <= 1e-5 * L)


def _fold(z):
    import math
    return complex(math.fmod(z.real * 12345.678, 10), math.fmod(z.imag * 12345.678, 10))   # the sampler draws many magnitudes


# ------------------------------------------------------------------------------------ arcs
# Arc.reversed / cropped / split build NEW arcs from endpoint parameters and the constructor
# re-parameterises from scratch (C04).  Proved here: the call-site contract - the constructor
# receives the endpoint parameters of the piece:
#   reversed:        (end, radii, phi, fA, not fS, start)
#   cropped(t0,t1):  (point(t0), radii, phi, |delta*(t1-t0)| > 180, fS, point(t1)), t0 < t1
#   split(t):        cropped(0,t), cropped(t,1)
# That the piece of an elliptical arc between two parameters is the arc with these endpoint
# parameters (same ellipse, same direction, "large" iff it spans more than half a turn of the
# ellipse parameter) is F.6 of the SVG notes (assumed mathematics); the bounded stand-ins in
# arcs_bounded.py check the statement itself on floats.

def _arc_ctor_spy(c):
    calls = []

    def init(ip, f, args, kwargs):
        names = ['self', 'start', 'radius', 'rotation', 'large_arc', 'sweep', 'end', 'autoscale_radius']
        got = dict(zip(names, args))
        got.update(kwargs)
        calls.append(got)
        for k, v in got.items():
            if k != 'self':
                c.set(got['self'], k, v)
        return None
    c.ip.summaries['path.Arc.__init__'] = init
    return calls


@contract('C09', 'path.Arc.reversed', params=[{'_no_bounded': True}])
def arc_reversed_swaps_the_ends_and_flips_sweep(c):
    from contracts.c04 import arc_state
    arc, p = arc_state(c)
    calls = _arc_ctor_spy(c)
    r = c.callm(arc, 'reversed')
    c.ensures('one-Arc-is-built', len(calls) == 1 and c.isinstance(r, 'path.Arc'))
    g = calls[0]
    c.ensures('ends-swapped', ops.And(ops.eq(g['start'], p['end']), ops.eq(g['end'], p['start'])))
    c.ensures('radii-rotation-large_arc-unchanged', ops.And(ops.eq(g['radius'], ops.cx(p['rx'], p['ry'])), ops.eq(g['rotation'], p['rot']),
                                                            g['large_arc'] is c.get(arc, 'large_arc')))
    c.ensures('sweep-flipped', c.py_eq(g['sweep'], ops.Not(c.get(arc, 'sweep'))))


def _constructor_invariant(c, arc, p):
    """what the constructor establishes (C04): the stored parameters put point(0) at start and point(1) at end"""
    c.assume(ops.And(ops.eq(c.callm(arc, 'point', 0), p['start']), ops.eq(c.callm(arc, 'point', 1), p['end'])))


def _check_crop(c, g, arc, p, t0, t1, tag):
    delta = p['delta']
    c.ensures('%s:ends-are-point(t0)-and-point(t1)' % tag, ops.And(ops.eq(g['start'], c.callm(arc, 'point', t0)), ops.eq(g['end'], c.callm(arc, 'point', t1))))
    c.ensures('%s:radii-rotation-sweep-unchanged' % tag, ops.And(ops.eq(g['radius'], ops.cx(p['rx'], p['ry'])), ops.eq(g['rotation'], p['rot']),
                                                                 g['sweep'] is c.get(arc, 'sweep')))
    span = ops.absv(delta * (t1 - t0))
    la = g['large_arc']
    la = (la == 1) if isinstance(la, (bool, int)) else la          # 0/1 in the code as it is; a condition is fine too
    c.ensures('%s:large_arc-iff-the-piece-spans-more-than-180-degrees' % tag, ops.Iff(la, ops.lt(180, span)))


@contract('C09', 'path.Arc.cropped', params=[{'_no_bounded': True}])
def arc_cropped_passes_the_endpoint_parameters_of_the_piece(c):
    from contracts.c04 import arc_state
    arc, p = arc_state(c)
    _constructor_invariant(c, arc, p)
    calls = _arc_ctor_spy(c)
    t0, t1 = c.real('t0'), c.real('t1')
    c.assume(ops.And(ops.le(0, t0), ops.lt(t0, t1), ops.le(t1, 1)))
    r = c.callm(arc, 'cropped', t0, t1)
    c.ensures('one-Arc-is-built', len(calls) == 1 and c.isinstance(r, 'path.Arc'))
    _check_crop(c, calls[0], arc, p, t0, t1, 'cropped')


@contract('C09', 'path.Arc.split', params=[{'_no_bounded': True}])
def arc_split_is_two_crops_that_meet_at_point_t(c):
    from contracts.c04 import arc_state
    arc, p = arc_state(c)
    _constructor_invariant(c, arc, p)
    calls = _arc_ctor_spy(c)
    t = c.real('t')
    c.assume(ops.And(ops.lt(0, t), ops.lt(t, 1)))
    a, b = c.items(c.callm(arc, 'split', t))
    c.ensures('two-Arcs-are-built', len(calls) == 2)
    _check_crop(c, calls[0], arc, p, 0, t, 'left')
    _check_crop(c, calls[1], arc, p, t, 1, 'right')
    c.ensures('pieces-meet-at-point(t)', ops.eq(calls[0]['end'], calls[1]['start']))
