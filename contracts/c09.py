"""C09 -- reversed/split/cropped trace the same curve under the documented parameter map."""
from pyvc.dsl import contract
from pyvc import ops
from specs import bez
from contracts.c03 import CLASSES, NAMES, mkseg


def _bp(c, seg):
    return list(c.items(c.callm(seg, 'bpoints')))


def _register(fn, method, n, **kw):
    fn.__name__ = '%s_%s' % (fn.__name__, NAMES[n])
    globals()[fn.__name__] = fn
    contract('C09', '%s.%s' % (CLASSES[n], method), **kw)(fn)


for _n in (2, 3, 4):
    def _mk(n):
        def reversed_(c):
            P, seg = mkseg(c, n)
            u = c.real('u')
            rev = c.callm(seg, 'reversed')
            c.ensures('same-class', c.isinstance(rev, CLASSES[n]))
            c.ensures('reversed().point(u)==point(1-u)', ops.eq(bez.bern(_bp(c, rev), u), bez.bern(P, 1 - u)))
            c.ensures('control-points-reversed', ops.eq(_bp(c, rev), P[::-1]))
        _register(reversed_, 'reversed', n)

        def split(c):
            P, seg = mkseg(c, n)
            t, u = c.real('t'), c.real('u')
            a, b = c.items(c.callm(seg, 'split', t))
            c.ensures('same-class', ops.And(c.isinstance(a, CLASSES[n]), c.isinstance(b, CLASSES[n])))
            A, B = _bp(c, a), _bp(c, b)
            c.ensures('pieces-meet-at-point(t)', ops.And(ops.eq(A[-1], B[0]), ops.eq(A[-1], bez.bern(P, t))))
            c.ensures('first-piece-starts-at-start,second-ends-at-end', ops.And(ops.eq(A[0], P[0]), ops.eq(B[-1], P[-1])))
            c.ensures('left.point(u)==point(u*t)', ops.eq(bez.bern(A, u), bez.bern(P, u * t)))
            c.ensures('right.point(u)==point(t+u*(1-t))', ops.eq(bez.bern(B, u), bez.bern(P, t + u * (1 - t))))
        _register(split, 'split', n)

        def cropped(c):
            P, seg = mkseg(c, n)
            t0, t1, u = c.real('t0'), c.real('t1'), c.real('u')
            c.assume(ops.And(ops.le(0, t0), ops.lt(t0, t1), ops.le(t1, 1)))
            if n > 2:
                _install_radialrange_contract(c)
            r = c.callm(seg, 'cropped', t0, t1)
            c.ensures('same-class', c.isinstance(r, CLASSES[n]))
            R = _bp(c, r)
            c.ensures('starts-at-point(t0)', ops.eq(R[0], bez.bern(P, t0)))
            c.ensures('ends-at-point(t1)', ops.eq(R[-1], bez.bern(P, t1)))
            c.ensures('cropped(t0,t1).point(u)==point(t0+u*(t1-t0))',
                      ops.eq(bez.bern(R, u), bez.bern(P, t0 + u * (t1 - t0))))
        _register(cropped, 'cropped', n, budget=120)
    _mk(_n)


def _install_radialrange_contract(c):
    """call-site contract of Quadratic/CubicBezier.radialrange (its obligations: C13):
    returns ((dmin,tmin),(dmax,tmax)) with tmin in [0,1], dmin = |point(tmin)-origin| and
    dmin <= |point(tau)-origin| for every tau in [0,1].  The universally quantified part is
    instantiated at the one tau the caller's argument needs: the parameter at which the
    trimmed piece passes through the query point."""
    if c.mode != 'sym':
        return
    from pyvc import sym

    def rr(ip, f, args, kwargs):
        seg, origin = args[0], args[1]
        P = list(ip.iterate(ip.call(ip.getattr(seg, 'bpoints'), [], {})))
        tmin, tmax = ip.ctx.fresh_real('rr_tmin'), ip.ctx.fresh_real('rr_tmax')
        dmin, dmax = ip.ctx.fresh_real('rr_dmin'), ip.ctx.fresh_real('rr_dmax')
        ip.ctx.assume(sym.zbool(sym.And(sym.le(0, tmin), sym.le(tmin, 1), sym.le(0, tmax), sym.le(tmax, 1),
                                        sym.le(0, dmin), sym.le(dmin, dmax),
                                        sym.eq(dmin * dmin, ops.norm2(bez.bern(P, tmin) - origin)),
                                        sym.eq(dmax * dmax, ops.norm2(bez.bern(P, tmax) - origin)))))
        for tau in getattr(c, '_rr_instances', []):
            ip.ctx.assume(sym.zbool(sym.Implies(sym.And(sym.le(0, tau), sym.le(tau, 1)),
                                                sym.le(dmin * dmin, ops.norm2(bez.bern(P, tau) - origin)))))
        return ((dmin, tmin), (dmax, tmax))
    c._rr_instances = []
    t0, t1 = c.real('t0'), c.real('t1')
    # the point self.point(t1) lies on the piece trimmed at t0 at parameter (t1-t0)/(1-t0)
    c._rr_instances.append((t1 - t0) / (1 - t0))
    for cls in ('QuadraticBezier', 'CubicBezier'):
        c.ip.summaries['path.%s.radialrange' % cls] = rr


@contract('C09', 'path.crop_bezier', params=[{'n': 3}, {'n': 4}], budget=120)
def crop_bezier_branches(c, n):
    """the two branches that do not re-locate t1: exact for all curves"""
    P, seg = mkseg(c, n)
    t, u = c.real('t'), c.real('u')
    c.assume(ops.And(ops.lt(0, t), ops.lt(t, 1)))
    a = c.call('path.crop_bezier', seg, 0, t)
    c.ensures('crop(0,t).point(u)==point(u*t)', ops.eq(bez.bern(_bp(c, a), u), bez.bern(P, u * t)))
    b = c.call('path.crop_bezier', seg, t, 1)
    c.ensures('crop(t,1).point(u)==point(t+u*(1-t))', ops.eq(bez.bern(_bp(c, b), u), bez.bern(P, t + u * (1 - t))))


# ---------------------------------------------------------------- paths

from contracts.c05 import mkpath  # noqa: E402


@contract('C09', 'path.Path.reversed', params=[{'kinds': k} for k in ['L', 'C', 'LQ', 'QLC', 'CCL']], level='per-shape')
def path_reversed(c, kinds):
    path, segs, pts = mkpath(c, kinds)
    n = len(segs)
    u = c.real('u')
    rev = c.callm(path, 'reversed')
    rs = list(c.items(rev))
    c.ensures('same-number-of-segments', len(rs) == n)
    for i in range(n):
        j = n - 1 - i
        c.ensures('segment-%d-is-the-reversal-of-segment-%d' % (i, j),
                  ops.And(c.isinstance(rs[i], {2: 'path.Line', 3: 'path.QuadraticBezier', 4: 'path.CubicBezier'}[len(pts[j])]),
                          ops.eq(bez.bern(_bp(c, rs[i]), u), bez.bern(pts[j], 1 - u))))
    c.ensures('start/end-swapped', ops.And(ops.eq(c.get(rev, 'start'), pts[-1][-1]), ops.eq(c.get(rev, 'end'), pts[0][0])))
