"""C03 -- Line/Quadratic/Cubic point, poly, points, derivative are the Bernstein curve.

Every top-level clause is taken from the property statement: the oracle is specs.bez.bern
(the Bernstein sum) and its derivative, never the code's own Horner forms."""
from pyvc.dsl import contract
from pyvc import ops
from specs import bez

CLASSES = {2: 'path.Line', 3: 'path.QuadraticBezier', 4: 'path.CubicBezier'}
NAMES = {2: 'Line', 3: 'QuadraticBezier', 4: 'CubicBezier'}


def mkseg(c, n):
    P = [c.cplx('P%d' % i) for i in range(n)]
    return P, c.new(CLASSES[n], *P)


def _register(fn, method, n):
    fn.__name__ = '%s_%s' % (method, NAMES[n])
    fn.__qualname__ = fn.__name__
    globals()[fn.__name__] = fn
    contract('C03', '%s.%s' % (CLASSES[n], method))(fn)


for _n in (2, 3, 4):
    def _make(n):
        def point(c):
            P, seg = mkseg(c, n)
            t = c.real('t')
            r = c.callm(seg, 'point', t)
            c.ensures('point(t)==bernstein', ops.eq(r, bez.bern(P, t)))
            c.ensures('point(0)==start', ops.eq(c.callm(seg, 'point', 0), P[0]))
            c.ensures('point(1)==end', ops.eq(c.callm(seg, 'point', 1), P[-1]))
        _register(point, 'point', n)

        def bpoints(c):
            P, seg = mkseg(c, n)
            b = c.items(c.callm(seg, 'bpoints'))
            c.ensures('bpoints-are-the-control-points', ops.And(len(b) == n, ops.eq(list(b), P)))
        _register(bpoints, 'bpoints', n)

        def poly(c):
            P, seg = mkseg(c, n)
            t = c.real('t')
            coeffs = c.items(c.callm(seg, 'poly', return_coeffs=True))
            c.ensures('len(coeffs)', len(coeffs) == n)
            c.ensures('horner(coeffs,t)==bernstein', ops.eq(bez.horner(coeffs, t), bez.bern(P, t)))
            c.ensures('coeffs==monomial-basis-coefficients', ops.eq(list(coeffs), bez.power_coeffs(P)))
            p = c.callm(seg, 'poly')
            c.ensures('poly()-is-poly1d', c.is_poly1d(p))
            c.ensures('poly()(t)==bernstein', ops.eq(c.call(p, t), bez.bern(P, t)))
            # numpy strips leading zeros: the stored vector is `coeffs` minus leading zeros
            pc = c.poly_coeffs(p)
            d = len(coeffs) - len(pc)
            c.ensures('poly().coeffs==coeffs-without-leading-zeros',
                      ops.And(d >= 0, ops.eq(list(pc), list(coeffs)[d:]) if d >= 0 else False,
                              *[ops.eq(x, 0) for x in list(coeffs)[:max(d, 0)]]))
            c.ensures('poly().coeffs-nothing-else-stripped',
                      ops.Or(len(pc) == 1, ops.ne(pc[0], 0)))
        _register(poly, 'poly', n)

        def points(c):
            P, seg = mkseg(c, n)
            ts = [c.real('t0'), c.real('t1'), c.real('t2')]
            r = c.array_items(c.callm(seg, 'points', ts))
            c.ensures('len', len(r) == 3)
            for k in range(3):
                c.ensures('points[%d]==bernstein' % k, ops.eq(r[k], bez.bern(P, ts[k])))
        _register(points, 'points', n)

        def derivative(c):
            P, seg = mkseg(c, n)
            t = c.real('t')
            k = c.int('n')
            if n == 2:
                c.assume(ops.ne(P[0], P[1]))      # the code's own `assert self.end != self.start`
            out = c.outcome(lambda: c.callm(seg, 'derivative', t, k))
            if out.kind == 'raise':
                c.ensures('raises-only-ValueError', out.exc == 'ValueError')
                c.ensures('raises-only-for-n<1', ops.lt(k, 1))
            else:
                c.ensures('returns-only-for-n>=1', ops.le(1, k))
                # n-th derivative of the Bernstein curve: case split on the symbolic order
                deg = n - 1
                goal = []
                for j in range(1, deg + 1):
                    goal.append(ops.Implies(ops.eq(k, j), ops.eq(out.value, bez.dbern(P, t, j))))
                goal.append(ops.Implies(ops.gt(k, deg), ops.eq(out.value, 0)))
                c.ensures('derivative(t,n)==d^n/dt^n bernstein', ops.And(*goal))
        _register(derivative, 'derivative', n)
    _make(_n)


@contract('C03', 'path.Line.derivative')
def derivative_Line_default_args(c):
    P, seg = mkseg(c, 2)
    c.assume(ops.ne(P[0], P[1]))
    c.ensures('derivative()==end-start', ops.eq(c.callm(seg, 'derivative'), P[1] - P[0]))


# ---------------------------------------------------------------- conversions

@contract('C03', 'bezier.bezier2polynomial', params=[{'n': 2}, {'n': 3}, {'n': 4}])
def bezier2polynomial(c, n):
    P = [c.cplx('P%d' % i) for i in range(n)]
    t = c.real('t')
    co = c.items(c.call('bezier.bezier2polynomial', tuple(P)))
    c.ensures('numpy-order', ops.eq(bez.horner(co, t), bez.bern(P, t)))
    c.ensures('coeffs==monomial-basis-coefficients', ops.eq(list(co), bez.power_coeffs(P)))
    co2 = c.items(c.call('bezier.bezier2polynomial', tuple(P), numpy_ordering=False))
    c.ensures('standard-order-is-reverse', ops.eq(list(co2), list(co)[::-1]))
    p = c.call('bezier.bezier2polynomial', tuple(P), return_poly1d=True)
    c.ensures('poly1d', ops.And(c.is_poly1d(p), ops.eq(c.call(p, t), bez.bern(P, t))))


@contract('C03', 'bezier.polynomial2bezier', params=[{'n': 2}, {'n': 3}, {'n': 4}])
def polynomial2bezier(c, n):
    co = [c.cplx('c%d' % i) for i in range(n)]
    t = c.real('t')
    bp = c.items(c.call('bezier.polynomial2bezier', tuple(co)))
    c.ensures('len', len(bp) == n)
    c.ensures('bernstein(bpoints,t)==horner(coeffs,t)', ops.eq(bez.bern(list(bp), t), bez.horner(co, t)))
    # poly1d input: numpy strips leading zero coefficients, so the order may drop; whatever is
    # returned must still be the same curve, and it raises only for a constant polynomial
    out = c.outcome(lambda: c.items(c.call('bezier.polynomial2bezier', c.poly1d(co))))
    if out.kind == 'ok':
        c.ensures('poly1d-input-same-curve', ops.eq(bez.bern(list(out.value), t), bez.horner(co, t)))
        c.ensures('poly1d-input-order', ops.Implies(ops.ne(co[0], 0), ops.eq(list(out.value), list(bp))
                                                     if len(out.value) == n else False))
    else:
        c.ensures('poly1d-input-raises-only-for-constants',
                  ops.And(out.exc == 'AssertionError', *[ops.eq(x, 0) for x in co[:-1]]))


@contract('C03', 'bezier.polynomial2bezier', params=[{'n': 2}, {'n': 3}, {'n': 4}])
def basis_change_roundtrip(c, n):
    P = [c.cplx('P%d' % i) for i in range(n)]
    co = c.call('bezier.bezier2polynomial', tuple(P))
    back = c.items(c.call('bezier.polynomial2bezier', co))
    c.ensures('polynomial2bezier(bezier2polynomial(P))==P', ops.eq(list(back), P))
    co0 = [c.cplx('c%d' % i) for i in range(n)]
    bp = c.call('bezier.polynomial2bezier', tuple(co0))
    co1 = c.items(c.call('bezier.bezier2polynomial', bp))
    c.ensures('bezier2polynomial(polynomial2bezier(c))==c', ops.eq(list(co1), co0))


@contract('C03', 'bezier.polynomial2bezier', params=[{'n': 1}, {'n': 5}])
def polynomial2bezier_rejects_other_orders(c, n):
    co = [c.cplx('c%d' % i) for i in range(n)]
    out = c.outcome(lambda: c.call('bezier.polynomial2bezier', tuple(co)))
    c.ensures('raises-AssertionError', out.kind == 'raise' and out.exc == 'AssertionError')


@contract('C03', 'path.bpoints2bezier', params=[{'n': 2}, {'n': 3}, {'n': 4}])
def bpoints2bezier(c, n):
    P = [c.cplx('P%d' % i) for i in range(n)]
    seg = c.call('path.bpoints2bezier', list(P))
    c.ensures('class', c.isinstance(seg, CLASSES[n]))
    c.ensures('fields', ops.eq(list(c.items(c.callm(seg, 'bpoints'))), P))
    t = c.real('t')
    c.ensures('same-curve', ops.eq(c.callm(seg, 'point', t), bez.bern(P, t)))


@contract('C03', 'path.bezier_segment', params=[{'n': 2}, {'n': 3}, {'n': 4}])
def bezier_segment(c, n):
    P = [c.cplx('P%d' % i) for i in range(n)]
    seg = c.call('path.bezier_segment', *P)
    c.ensures('class', c.isinstance(seg, CLASSES[n]))
    c.ensures('fields', ops.eq(list(c.items(c.callm(seg, 'bpoints'))), P))


@contract('C03', 'path.poly2bez', params=[{'n': 2}, {'n': 3}, {'n': 4}])
def poly2bez(c, n):
    co = [c.cplx('c%d' % i) for i in range(n)]
    t = c.real('t')
    seg = c.call('path.poly2bez', tuple(co))
    c.ensures('class', c.isinstance(seg, CLASSES[n]))
    c.ensures('same-curve', ops.eq(c.callm(seg, 'point', t), bez.horner(co, t)))
    bp = c.items(c.call('path.poly2bez', tuple(co), return_bpoints=True))
    c.ensures('return_bpoints', ops.eq(list(bp), list(c.items(c.callm(seg, 'bpoints')))))
    # poly1d input (leading zeros stripped by numpy): same curve whenever something is returned
    out = c.outcome(lambda: c.call('path.poly2bez', c.poly1d(co)))
    if out.kind == 'ok':
        c.ensures('poly1d-input-same-curve', ops.eq(c.callm(out.value, 'point', t), bez.horner(co, t)))
        c.ensures('poly1d-input-class', ops.Implies(ops.ne(co[0], 0), c.isinstance(out.value, CLASSES[n])))
    else:
        c.ensures('poly1d-input-raises-only-for-constants',
                  ops.And(out.exc == 'AssertionError', *[ops.eq(x, 0) for x in co[:-1]]))


@contract('C03', 'path.bez2poly', params=[{'n': 2}, {'n': 3}, {'n': 4}])
def bez2poly(c, n):
    P, seg = mkseg(c, n)
    t = c.real('t')
    co = c.items(c.call('path.bez2poly', seg))
    c.ensures('segment-input', ops.eq(bez.horner(co, t), bez.bern(P, t)))
    co2 = c.items(c.call('path.bez2poly', tuple(P)))
    c.ensures('tuple-input', ops.eq(list(co2), list(co)))
    # the wrapper hands both of its options on, whatever the kind of input
    co3 = c.items(c.call('path.bez2poly', seg, numpy_ordering=False))
    c.ensures('segment-input,standard-ordering', ops.eq(list(co3), list(reversed(list(co)))))
    co4 = c.items(c.call('path.bez2poly', tuple(P), numpy_ordering=False))
    c.ensures('tuple-input,standard-ordering', ops.eq(list(co4), list(reversed(list(co)))))
    p2 = c.call('path.bez2poly', tuple(P), return_poly1d=True)
    c.ensures('tuple-input,poly1d', ops.eq(c.call(p2, t), bez.bern(P, t)))
    p = c.call('path.bez2poly', seg, return_poly1d=True)
    c.ensures('agrees-with-poly()', ops.eq(c.call(p, t), c.call(c.callm(seg, 'poly'), t)))
    back = c.call('path.poly2bez', tuple(co))
    c.ensures('poly2bez(bez2poly(seg))==seg', c.py_eq(back, seg))
