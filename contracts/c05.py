"""C05 -- path parameter T, segment parameter t and arc-length fractions are coherent.

Per-shape family: paths of 1..3 segments over the Bezier classes (every control point, every
segment length and T symbolic).  Segment lengths enter through the callee contract of
`length` (an uninterpreted LEN >= 0 for curved segments, the closed form for lines)."""
from pyvc.dsl import contract
from pyvc import ops
from specs import bez

KIND = {'L': ('path.Line', 2), 'Q': ('path.QuadraticBezier', 3), 'C': ('path.CubicBezier', 4)}
SHAPES_Q = ['L', 'C', 'LL', 'QC', 'CL', 'LQC', 'CLL', 'LLLLL']
SHAPES = [{'kinds': k} for k in SHAPES_Q]


def mkpath(c, kinds, continuous=False, prefix='s'):
    segs, pts = [], []
    prev_end = None
    for i, k in enumerate(kinds):
        qual, n = KIND[k]
        P = [c.cplx('%s%d_P%d' % (prefix, i, j)) for j in range(n)]
        if continuous and prev_end is not None:
            P[0] = prev_end
        prev_end = P[-1]
        pts.append(P)
        segs.append(c.new(qual, *P))
    return c.new('path.Path', *segs), segs, pts


def seg_lengths(c, segs):
    return [c.callm(s, 'length') for s in segs]


def fractions_spec(lens):
    L = sum(lens[1:], lens[0])
    return L, [x / L for x in lens]


def prefix(F, k):
    s = 0
    for j in range(k):
        s = s + F[j]
    return s


@contract('C05', 'path.Path._calc_lengths', params=SHAPES, level='per-shape')
def calc_lengths(c, kinds):
    path, segs, pts = mkpath(c, kinds)
    lens = seg_lengths(c, segs)
    c.callm(path, '_calc_lengths')
    L = c.get(path, '_length')
    F = list(c.items(c.get(path, '_lengths')))
    tot = sum(lens[1:], lens[0])
    c.ensures('_length==sum-of-segment-lengths', ops.eq(L, tot))
    c.ensures('len(_lengths)==len(path)', len(F) == len(segs))
    for i in range(len(segs)):
        c.ensures('_lengths[%d]*_length==length-of-segment' % i, ops.eq(F[i] * L, lens[i]))
        c.ensures('_lengths[%d]>=0' % i, ops.le(0, F[i]))
    c.ensures('fractions-sum-to-1-when-length>0', ops.Implies(ops.lt(0, tot), ops.eq(prefix(F, len(F)), 1)))


@contract('C05', 'path.Path.T2t', params=SHAPES, level='per-shape')
def T2t(c, kinds):
    path, segs, pts = mkpath(c, kinds)
    n = len(segs)
    lens = seg_lengths(c, segs)
    c.assume(ops.lt(0, lens[0]))                 # zero-length segments only in non-leading positions
    T = c.real('T')
    c.assume(ops.And(ops.le(0, T), ops.le(T, 1)))
    L, F = fractions_spec(lens)
    out = c.outcome(lambda: c.callm(path, 'T2t', T))
    c.ensures('T2t-returns-for-every-T-in-[0,1]', out.kind == 'ok')
    if out.kind != 'ok':
        return
    k, t = c.items(out.value)
    c.ensures('index-in-range', isinstance(k, int) and 0 <= k < n)
    if not isinstance(k, int):
        return
    S = prefix(F, k)
    c.ensures('T==0 -> (0,0)', ops.Implies(ops.eq(T, 0), ops.And(k == 0, ops.eq(t, 0))))
    c.ensures('T==1 -> (n-1,1)', ops.Implies(ops.eq(T, 1), ops.And(k == n - 1, ops.eq(t, 1))))
    inner = ops.And(ops.lt(0, T), ops.lt(T, 1))
    c.ensures('segment-k-occupies-[S(k),S(k)+F(k)]', ops.Implies(inner, ops.And(ops.lt(S, T), ops.le(T, S + F[k]))))
    c.ensures('first-such-segment', ops.Implies(inner, ops.And(*[ops.lt(prefix(F, j + 1), T) for j in range(k)])))
    c.ensures('t-in-(0,1]', ops.Implies(inner, ops.And(ops.lt(0, t), ops.le(t, 1))))
    c.ensures('S(k)+F(k)*t==T', ops.Implies(inner, ops.eq(S + F[k] * t, T)))
    c.ensures('never-divides-by-a-zero-length-segment', ops.Implies(inner, ops.lt(0, F[k])))
    # t2T inverts it
    back = c.callm(path, 't2T', k, t)
    c.ensures('t2T(T2t(T))==T', ops.eq(back, T))
    # point(T) is the point of segment k at t
    pt = c.callm(path, 'point', T)
    c.ensures('point(T)==segment[k].point(t)', ops.eq(pt, bez.bern(pts[k], t)))


@contract('C05', 'path.Path.t2T', params=[p for p in SHAPES if len(p['kinds']) <= 3], level='per-shape')
def t2T(c, kinds):
    path, segs, pts = mkpath(c, kinds)
    n = len(segs)
    lens = seg_lengths(c, segs)
    c.assume(ops.lt(0, lens[0]))
    L, F = fractions_spec(lens)
    t = c.real('t')
    c.assume(ops.And(ops.le(0, t), ops.le(t, 1)))
    for k in range(n):
        T = c.callm(path, 't2T', k, t)
        c.ensures('t2T(%d,t)==S(k)+F(k)*t' % k, ops.eq(T, prefix(F, k) + F[k] * t))
        T_by_seg = c.callm(path, 't2T', segs[k], t)
        first_equal = [j for j in range(k + 1) if j == k or c.known(c.py_eq(segs[j], segs[k])) is not False]
        if first_equal == [k]:
            c.ensures('t2T(segment,t)==t2T(index,t)[%d]' % k, ops.eq(T_by_seg, T))
    # inverse on (0,1] for segments of positive length
    k0 = n - 1
    c.assume(ops.And(ops.lt(0, t), ops.lt(0, F[k0])))
    T = c.callm(path, 't2T', k0, t)
    kk, tt = c.items(c.callm(path, 'T2t', T))
    c.ensures('T2t(t2T(k,t))==(k,t)', ops.And(kk == k0, ops.eq(tt, t)))


@contract('C05', 'path.Path.point', params=SHAPES, level='per-shape')
def point_ends(c, kinds):
    path, segs, pts = mkpath(c, kinds)
    lens = seg_lengths(c, segs)
    c.assume(ops.lt(0, lens[0]))
    c.ensures('point(0)==start', ops.eq(c.callm(path, 'point', 0), pts[0][0]))
    c.ensures('point(1)==end', ops.eq(c.callm(path, 'point', 1), pts[-1][-1]))
    c.ensures('start-property', ops.eq(c.get(path, 'start'), pts[0][0]))
    c.ensures('end-property', ops.eq(c.get(path, 'end'), pts[-1][-1]))
    T = c.real('T')
    c.assume(ops.And(ops.le(0, T), ops.le(T, 1)))
    out = c.outcome(lambda: c.callm(path, 'point', T))
    c.ensures('point(T)-returns-for-every-T-in-[0,1]', out.kind == 'ok')


@contract('C05', 'path.Path.point', params=[{'kinds': ''}])
def point_of_empty_path_raises(c, kinds):
    path = c.new('path.Path')
    out = c.outcome(lambda: c.callm(path, 'point', c.real('T')))
    c.ensures('ValueError', out.kind == 'raise' and out.exc == 'ValueError')


CONT_SHAPES = [{'kinds': k} for k in ['L', 'LL', 'QC', 'LQC', 'CLL', 'LLLL', 'LLLLL', 'LCLQLL']]


@contract('C05', 'path.Path.iscontinuous', params=CONT_SHAPES, level='per-shape')
def iscontinuous(c, kinds):
    path, segs, pts = mkpath(c, kinds)
    n = len(segs)
    r = c.callm(path, 'iscontinuous')
    spec = ops.And(*[ops.eq(pts[i][-1], pts[i + 1][0]) for i in range(n - 1)])
    c.ensures('iscontinuous()<=>consecutive-endpoints-coincide', ops.Iff(r, spec))


@contract('C05', 'path.Path.isclosed', params=CONT_SHAPES, level='per-shape')
def isclosed(c, kinds):
    path, segs, pts = mkpath(c, kinds)
    n = len(segs)
    cont = ops.And(*[ops.eq(pts[i][-1], pts[i + 1][0]) for i in range(n - 1)])
    out = c.outcome(lambda: c.callm(path, 'isclosed'))
    if out.kind == 'ok':
        c.ensures('returns-only-for-continuous-paths', cont)
        c.ensures('isclosed()<=>start==end', ops.Iff(out.value, ops.eq(pts[0][0], pts[-1][-1])))
    else:
        c.ensures('AssertionError-only-for-discontinuous-paths', ops.And(out.exc == 'AssertionError', ops.Not(cont)))


@contract('C05', 'path.Path.continuous_subpaths', params=CONT_SHAPES, level='per-shape')
def continuous_subpaths(c, kinds):
    path, segs, pts = mkpath(c, kinds)
    n = len(segs)
    subs = list(c.items(c.callm(path, 'continuous_subpaths')))
    flat = []
    for sp in subs:
        ss = list(c.items(sp))
        c.ensures('no-empty-subpath', len(ss) >= 1)
        flat.append(ss)
    cat = [s for ss in flat for s in ss]
    c.ensures('concatenate-back-to-the-original', len(cat) == n and all(a is b for a, b in zip(cat, segs)))
    idx = 0
    for j, ss in enumerate(flat):
        for i in range(len(ss) - 1):
            c.ensures('subpath-is-continuous', ops.eq(pts[idx + i][-1], pts[idx + i + 1][0]))
        idx += len(ss)
        if j < len(flat) - 1:
            c.ensures('maximal:consecutive-subpaths-are-separated-by-a-genuine-break', ops.ne(pts[idx - 1][-1], pts[idx][0]))
    c.ensures('agrees-with-concatpaths', c.py_eq(c.call('path.concatpaths', subs), path))
