"""Contracts that more than one property depends on are registered under each of them, so that
every property's own command notices a change that breaks the shared statement (imported last:
the file name sorts after the per-property modules)."""
from pyvc import dsl

# the length of a part of a path (C05: the length fractions are coherent; C06: it is the length)
dsl.share('C05', ['path_partial_length_decomposes', 'path_length_is_sum'])
# a cached length must be the length (C06) as well as what a fresh segment answers (C16)
dsl.share('C06', ['cubic_length_cache_answers_like_a_fresh_segment'])
# the basis change between Bernstein and monomial form belongs to the generic helpers (C19) too
dsl.share('C19', ['polynomial2bezier', 'polynomial2bezier_rejects_other_orders', 'basis_change_roundtrip'])
# the root finder's filter: every property whose completeness is stated relative to it
for _p in ('C08', 'C12', 'C13'):
    dsl.share(_p, ['polyroots_keeps_isolated_roots', 'polyroots01_filters_and_keeps'])
