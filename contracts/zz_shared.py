"""Contracts that more than one property depends on are registered under each of them, so that
every property's own command notices a change that breaks the shared statement (imported last:
the file name sorts after the per-property modules)."""
from pyvc import dsl

# the length of a part of a path (C05: the length fractions are coherent; C06: it is the length)
dsl.share('C05', ['path_partial_length_decomposes', 'path_length_is_sum'])
# a cached length must be the length (C06) as well as what a fresh segment answers (C16)
dsl.share('C06', ['cubic_length_cache_answers_like_a_fresh_segment'])
# the basis change between Bernstein and monomial form belongs to the generic helpers (C19) too
dsl.share('C19', ['polynomial2bezier', 'polynomial2bezier_rejects_other_orders', 'basis_change_roundtrip'])
# the root finder's filter: every property whose completeness is stated relative to it
for _p in ('C08', 'C12', 'C13'):
    dsl.share(_p, ['polyroots_keeps_isolated_roots', 'polyroots01_filters_and_keeps'])
# C15 demands that tangent and curvature transform with the curve: the image of a segment under
# translate / rotate / scale is the segment of the image points (C10), and tangent and curvature
# are derivatives of the point function, so they follow it.  The transform contracts are checked
# by C15's command too; the covariance itself is sampled in c15.py.
dsl.share('C15', ['translated_%s' % n for n in ('Line', 'QuadraticBezier', 'CubicBezier')] +
          ['rotated_%s' % n for n in ('Line', 'QuadraticBezier', 'CubicBezier')] +
          ['scaled_%s' % n for n in ('Line', 'QuadraticBezier', 'CubicBezier')] +
          ['arc_translate_passes_the_translated_endpoint_parameters', 'arc_rotate_passes_the_rotated_endpoint_parameters',
           'arc_uniform_scale_passes_the_scaled_endpoint_parameters'])
# C05 speaks of every path, also one an operation returned: a path that comes out of reversed /
# cropped / a transform with cached fractions that are not those of its own segments answers
# point(T), T2t, t2T from the wrong intervals.  The "returns a consistent path" contracts of
# C09 / C10 are checked by C05's command too.
dsl.share('C05', ['path_reversed_of_a_path_with_warm_caches_is_a_consistent_path',
                  'path_cropped_returns_a_consistent_path_whatever_was_cached',
                  'path_ops_return_a_consistent_path_whatever_was_cached'])
# smoothed_joint takes the directions in which the elbow must leave and arrive from
# seg.unit_tangent(1) / unit_tangent(0) - also where a cubic's end control points coincide and the
# tangent is a limit.  C20's kink-freeness is relative to those values: checked by its command too.
dsl.share('C20', ['unit_tangent_at_a_start_with_coincident_control_points_%s' % n for n in ('QuadraticBezier', 'CubicBezier')] +
          ['unit_tangent_at_an_end_with_coincident_control_points_%s' % n for n in ('QuadraticBezier', 'CubicBezier')])
