"""Callee contracts used at call sites (modularity) and the trusted-base text for evidence."""

SUMMARIES = {}      # qualname -> summary(ip, f, args, kwargs)
SUMMARY_PROPS = {}  # qualname -> property whose contracts verify that summary


def summary(qual, verified_by):
    def deco(fn):
        SUMMARIES[qual] = fn
        SUMMARY_PROPS[qual] = verified_by
        return fn
    return deco


def verifying_contracts(used_quals, prop, registry):
    """the contracts of OTHER properties that discharge the callee contracts (summaries) a
    property's contracts relied on: they are re-run as part of that property's check, so that a
    change inside a callee is noticed by every property that depends on it"""
    out = []
    for c in registry:
        if c.prop == prop or c.params.get('_bounded_only') or c.tier != 'quick':
            continue
        if c.target not in used_quals or c.target not in SUMMARIES:
            continue
        owner = SUMMARY_PROPS.get(c.target, '')
        if not owner.startswith(c.prop):
            continue
        if c.target == 'bezier.split_bezier' and c.params.get('deg') not in (1, 2, 3):
            continue     # the segment classes are of degree 1..3
        out.append(c)
    return out


def for_contract(ct):
    """summaries in force while verifying `ct`: every registered one except the function under
    contract itself and those the contract covers (executes in place) on purpose"""
    use = getattr(ct.fn, 'use_summaries', None)
    out = {}
    for q, s in SUMMARIES.items():
        if q == ct.target or q in ct.covers:
            continue
        if use is not None and q not in use:
            continue
        out[q] = s
    return out


BASE = [
    "floats treated as mathematical reals (no rounding, overflow, NaN, inf); a float literal denotes the decimal it is written as",
    "CPython semantics of the supported subset as encoded by pyvc.interp (cross-checked against CPython by the self-test, not proved)",
    "generator expressions and map/filter are evaluated eagerly",
    "z3 4.x/5.x, cvc5 and the ring normaliser are trusted as decision procedures",
    "ring back end: identities of rational functions hold wherever the executed divisions are defined (path conditions establish definedness)",
]

MODELS = {
    'numpy.poly1d': "numpy.poly1d modelled as a coefficient list: call = Horner value, + - * ** ring operations, deriv, integ (constant 0), coeffs, p[k]; leading-zero stripping changes no value",
    'numpy.roots': "numpy.roots returns, in unspecified order, the complex roots with multiplicity, exactly (numerical error outside reach)",
    'numpy.small': "numpy small-array algebra (array, identity, dot, matmul, T, slicing, item, linalg.inv by adjugate, isclose, clip, linspace) modelled as documented",
    'trig': "cos/sin/tan/acos/asin/atan/log are uninterpreted; only true axiom instances are added (Pythagoras, parity, quarter-turn shifts, addition formulas over angle atoms, inverse-function ranges); 3.1415926 < pi < 3.1415927",
    'sqrt': "sqrt/abs of a complex number: witness r with r >= 0 and r*r equal to the radicand",
    'mutableseq': "collections.abc.MutableSequence mix-ins are executed from CPython's own _collections_abc source",
}


def trusted_base(prop, summarised, axioms):
    out = list(BASE)
    out += [MODELS[k] for k in PROP_MODELS.get(prop, [])]
    for q in sorted(summarised):
        out.append("callee contract used at call sites: %s (its own obligations: %s; those contracts are re-run as part of this property's check)" % (q, SUMMARY_PROPS.get(q, '?')))
    for a in sorted(axioms):
        out.append("mathematical fact used as hypothesis: %s" % a)
    return out


def assumptions(prop, summarised, axioms):
    return trusted_base(prop, summarised, axioms) + PROP_NOTES.get(prop, [])


PROP_MODELS = {
    'C03': ['numpy.poly1d'],
    'C19': ['numpy.poly1d', 'numpy.roots'],
    'C05': ['sqrt', 'mutableseq'],
    'C06': ['sqrt', 'trig', 'mutableseq'],
    'C15': ['sqrt', 'numpy.poly1d', 'mutableseq'],
    'C11': ['sqrt', 'numpy.poly1d', 'numpy.roots', 'mutableseq'],
    'C12': ['sqrt', 'numpy.poly1d', 'numpy.roots'],
    'C07': ['sqrt', 'mutableseq'],
    'C16': ['sqrt', 'mutableseq'],
    'C01': ['mutableseq'],
    'C02': ['mutableseq'],
    'C17': ['trig', 'numpy.small', 'mutableseq'],
    'C04': ['trig', 'sqrt'],
    'C20': ['sqrt'],
    'C08': ['sqrt', 'numpy.poly1d', 'numpy.roots', 'mutableseq'],
    'C14': ['numpy.poly1d', 'numpy.small', 'mutableseq'],
    'C09': ['mutableseq'],
    'C10': ['trig', 'numpy.small', 'numpy.poly1d', 'mutableseq'],
    'C13': ['sqrt', 'numpy.poly1d', 'numpy.roots', 'mutableseq'],
}

PROP_NOTES = {
    'C17': ["xml.etree model: Element.get; iterfind('svg:x', ns) yields the children whose tag is '{ns}x' in document order; iter() pre-order; iterparse yields ('start', e)/('end', e) in document order",
            "LEX for attribute strings: the numbers found in a transform-list item / a points attribute are arbitrary values (cut)"],
    'C01': ["LEX: formatting a finite double with str.format and tokenising the result with COMMAND_RE.split + FLOAT_RE.findall inside a string assembled from the repo's literal templates gives back one token whose float() is that double; .lower() does not change it"],
    'C02': ["LEX is decided by the bounded lexer stand-in (exhaustive to length 6), not proved"],
    'C06': ["scipy.integrate.quad(f,a,b): an uninterpreted value >= 0; its accuracy is not assumed, so nothing about accuracy is proved",
            "numpy scalar arithmetic in QuadraticBezier.length: x/0 and log(0) yield inf/nan values (modelled), not exceptions"],
    'C19': ["per-shape: proofs for degrees/lengths 0..8 (rational_limit degrees 0..4), no claim beyond",
            "that the quotient of the first non-vanishing Taylor coefficients is the limit of f/g is assumed mathematics"],
    'C03': ["clause 'numerically to within rounding' is covered only by the bounded companion (coverage.bounded), never counted as proved"],
}


# ---------------------------------------------------------------------------- callee contracts
# Each summary is the contract of a callee as seen from a call site: preconditions become
# obligations of the caller (ip.ctx.oblige), the result is a function of the arguments (or a
# fresh value constrained by the postcondition).  The callee's own obligations are discharged
# by the contracts of the property named in `verified_by`.

@summary('bezier.split_bezier', verified_by='C19 (split_bezier: left==closed-form, right==closed-form)')
def _split_bezier(ip, f, args, kwargs):
    from specs import bez
    P = list(ip.iterate(args[0]))
    t = args[1] if len(args) > 1 else kwargs['t']
    left, right = bez.split_points(P, t)
    return (list(left), list(right))


def _bpoints_of(ip, seg):
    """control points of a Line/QuadraticBezier/CubicBezier object read from its fields"""
    n = seg.cls.name
    a = seg.attrs
    if n == 'Line':
        return [a['start'], a['end']]
    if n == 'QuadraticBezier':
        return [a['start'], a['control'], a['end']]
    if n == 'CubicBezier':
        return [a['start'], a['control1'], a['control2'], a['end']]
    raise KeyError(n)


def _point_summary(ip, f, args, kwargs):
    from specs import bez
    seg = args[0]
    t = args[1] if len(args) > 1 else kwargs['t']
    from pyvc import models
    if not isinstance(t, models.NUM):
        return ip.run_func(f, args, kwargs)       # array arguments: executed in place
    return bez.bern(_bpoints_of(ip, seg), t)


def _poly_summary(ip, f, args, kwargs):
    from specs import bez
    from pyvc import models
    seg = args[0]
    rc = args[1] if len(args) > 1 else kwargs.get('return_coeffs', False)
    co = bez.power_coeffs(_bpoints_of(ip, seg))
    if rc is True:
        return tuple(co) if seg.cls.name != 'Line' else list(co)
    if rc is False:
        return models.Poly1d(co)
    return ip.run_func(f, args, kwargs)


def _bpoints_summary(ip, f, args, kwargs):
    return tuple(_bpoints_of(ip, args[0]))


for _cls in ('Line', 'QuadraticBezier', 'CubicBezier'):
    summary('path.%s.point' % _cls, verified_by='C03 (point(t)==bernstein)')(_point_summary)
    summary('path.%s.poly' % _cls, verified_by='C03 (coeffs==monomial-basis-coefficients)')(_poly_summary)
    summary('path.%s.bpoints' % _cls, verified_by='C03 (bpoints-are-the-control-points)')(_bpoints_summary)


# ---- arc length as an uninterpreted function of the control points and the interval.
# Contract of QuadraticBezier/CubicBezier.length at call sites: a value LEN(P, t0, t1) >= 0 that
# depends only on the current control points and the interval (so repeated calls agree: this is
# the cache-transparency that C16 verifies on the real `length`), LEN(P,t,t) = 0.
# Line.length is executed in place (closed form).

def _len_fun(n):
    import z3
    R = z3.RealSort()
    return z3.Function('LEN%d' % n, *([R] * (2 * n + 2) + [R]))


def LEN(P, t0, t1):
    """the spec-side arc length symbol for control points P on [t0, t1]"""
    from pyvc import sym
    import z3
    n = len(P)
    args = []
    for p in P:
        args += [sym.zreal(sym.real_of(p)), sym.zreal(sym.imag_of(p))]
    args += [sym.zreal(t0), sym.zreal(t1)]
    r = sym.Re(_len_fun(n)(*args))
    c = sym.ctx()
    key = ('LEN', r.t.get_id())
    if key not in c.witness:
        c.witness[key] = r
        c.keep.append(r.t)
        c.fact(r.t >= 0)
    return r


def _length_summary(ip, f, args, kwargs):
    seg = args[0]
    names = ['t0', 't1', 'error', 'min_depth']
    vals = {'t0': 0, 't1': 1}
    for nm, v in zip(names, args[1:]):
        vals[nm] = v
    for k, v in kwargs.items():
        vals[k] = v
    return LEN(_bpoints_of(ip, seg), vals['t0'], vals['t1'])


for _cls in ('QuadraticBezier', 'CubicBezier'):
    summary('path.%s.length' % _cls, verified_by='C06/C16 (length contracts: non-negative, depends only on current control points and interval)')(_length_summary)
