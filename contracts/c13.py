"""C13 -- radialrange / closest / farthest return the global extremes of distance."""
from pyvc.dsl import contract
from pyvc import ops
from specs import bez
from contracts.c03 import CLASSES, NAMES, mkseg


def _unpack(c, rr):
    (mn, mx) = c.items(rr)
    mn, mx = c.items(mn), c.items(mx)
    return mn, mx


@contract('C13', 'path.Line.radialrange', budget=120)
def line_radialrange(c):
    P, seg = mkseg(c, 2)
    z = c.cplx('z')
    tau = c.real('tau')
    # no non-degeneracy assumption: a zero-length Line is a Line (the parser produces them)
    mn, mx = _unpack(c, c.callm(seg, 'radialrange', z))
    dmin, tmin = mn[0], mn[1]
    dmax, tmax = mx[0], mx[1]
    c.ensures('tmin,tmax in [0,1]', ops.And(ops.le(0, tmin), ops.le(tmin, 1), ops.le(0, tmax), ops.le(tmax, 1)))
    c.ensures('dmin==|point(tmin)-z|', ops.And(ops.le(0, dmin), ops.eq(dmin * dmin, ops.norm2(bez.bern(P, tmin) - z))))
    c.ensures('dmax==|point(tmax)-z|', ops.And(ops.le(0, dmax), ops.eq(dmax * dmax, ops.norm2(bez.bern(P, tmax) - z))))
    inside = ops.And(ops.le(0, tau), ops.le(tau, 1))
    d2 = ops.norm2(bez.bern(P, tau) - z)
    c.ensures('no-point-closer-than-dmin', ops.Implies(inside, ops.le(dmin * dmin, d2)))
    c.ensures('no-point-farther-than-dmax', ops.Implies(inside, ops.le(d2, dmax * dmax)))


def _radialrange_via_roots(c, n, m):
    """bezier_radialrange with polyroots01 replaced by its contract: a list of m numbers in [0,1]"""
    P, seg = mkseg(c, n)
    z = c.cplx('z')
    roots = [c.real('root%d' % i) for i in range(m)]
    for r in roots:
        c.assume(ops.And(ops.le(0, r), ops.le(r, 1)))
    return P, seg, z, roots


@contract('C13', 'path.bezier_radialrange',
          params=[{'n': n, 'm': m, '_no_bounded': True} for n in (3, 4) for m in range(0, 2 * n - 2)], level='relative', budget=120,
          note='relative to polyroots01 returning every critical point in [0,1] (numpy.roots exact) and to the '
               'extreme-value lemma (a differentiable function on [0,1] is extremal at an end or a critical point)')
def bezier_radialrange(c, n, m):
    P, seg, z, roots = _radialrange_via_roots(c, n, m)
    seen = {}

    def polyroots01_contract(ip, f, args, kwargs):
        seen['p'] = args[0]
        return list(roots)
    c.ip.summaries['polytools.polyroots01'] = polyroots01_contract
    mn, mx = _unpack(c, c.call('path.bezier_radialrange', seg, z))
    dmin, tmin, dmax, tmax = mn[0], mn[1], mx[0], mx[1]
    # the polynomial handed to the root finder is d/dt |B(t)-z|^2
    t = c.real('t')
    # every critical point is a candidate only if the root finder is asked, whatever the curve and the query point
    c.ensures('the-root-finder-is-consulted', 'p' in seen)
    if 'p' not in seen:
        return
    dp = seen['p']
    want = 2 * (ops.re(bez.bern(P, t) - z) * ops.re(bez.dbern(P, t, 1)) + ops.im(bez.bern(P, t) - z) * ops.im(bez.dbern(P, t, 1)))
    c.ensures('critical-point-polynomial-is-d/dt|B(t)-z|^2', ops.eq(c.call(dp, t), want))
    cands = [0, 1] + roots
    # distances at the candidates: the same |B(x)-z| terms the code builds through the point contract
    dist = [ops.absv(bez.bern(P, x) - z) for x in cands]
    c.ensures('tmin,tmax in [0,1]', ops.And(ops.le(0, tmin), ops.le(tmin, 1), ops.le(0, tmax), ops.le(tmax, 1)))
    c.ensures('(dmin,tmin)-is-(|point(x)-z|,x)-for-a-candidate-x',
              ops.Or(*[ops.And(ops.eq(tmin, x), ops.eq(dmin, d)) for x, d in zip(cands, dist)]))
    c.ensures('(dmax,tmax)-is-(|point(x)-z|,x)-for-a-candidate-x',
              ops.Or(*[ops.And(ops.eq(tmax, x), ops.eq(dmax, d)) for x, d in zip(cands, dist)]))
    for k, d in enumerate(dist):
        c.ensures('dmin<=distance-at-candidate-%d' % k, ops.le(dmin, d))
        c.ensures('dmax>=distance-at-candidate-%d' % k, ops.le(d, dmax))


for _n in (3, 4):
    def _mk(n):
        def radialrange_delegates(c):
            P, seg = mkseg(c, n)
            z = c.cplx('z')
            got = {}

            def spy(ip, f, args, kwargs):
                got['args'] = (args, kwargs)
                return 'RESULT'
            c.ip.summaries['path.bezier_radialrange'] = spy
            r = c.callm(seg, 'radialrange', z)
            c.ensures('bezier_radialrange-is-consulted', 'args' in got)
            if 'args' not in got:
                return
            a, k = got['args']
            c.ensures('delegates-to-bezier_radialrange(self, origin)',
                      ops.And(r == 'RESULT', a[0] is seg, c.py_eq(a[1], z), not k.get('return_all_global_extrema', False)))
        radialrange_delegates.__name__ = 'radialrange_delegates_%s' % NAMES[n]
        globals()[radialrange_delegates.__name__] = radialrange_delegates
        contract('C13', CLASSES[n] + '.radialrange', params=[{'_no_bounded': True}])(radialrange_delegates)
    _mk(_n)


@contract('C13', 'path.bezier_radialrange', params=[{'n': 2, '_bounded_only': True}, {'n': 3, '_bounded_only': True}, {'n': 4, '_bounded_only': True}])
def radialrange_against_dense_sampling(c, n):
    """bounded companion only (concrete): global optimality against 400 sampled parameters"""
    P, seg = mkseg(c, n)
    z = c.cplx('z')
    if n == 2:
        c.assume(P[0] != P[1])
    mn, mx = _unpack(c, c.callm(seg, 'radialrange', z))
    ds = [abs(bez.bern(P, k / 400.0) - z) for k in range(401)]
    c.ensures('dmin<=every-sampled-distance', ops.le(mn[0], min(ds)))
    c.ensures('dmax>=every-sampled-distance', ops.le(max(ds), mx[0]))
    c.ensures('d==|point(t)-z|', ops.And(ops.eq(mn[0], abs(bez.bern(P, mn[1]) - z)), ops.eq(mx[0], abs(bez.bern(P, mx[1]) - z))))


# ---------------------------------------------------------------- paths

from contracts.c05 import mkpath  # noqa: E402

PATH_SHAPES = [{'kinds': k} for k in ['L', 'C', 'LQ', 'CL', 'QLC']]


def _install_segment_radialrange(c, segs):
    """call-site contract of seg.radialrange(origin) (obligations: the segment contracts above):
    ((dmin,tmin),(dmax,tmax)) with 0 <= dmin <= dmax"""
    from pyvc import sym
    table = {}

    def rr(ip, f, args, kwargs):
        seg = args[0]
        i = [k for k, s in enumerate(segs) if s is seg][0]
        if i not in table:
            dmin, dmax = c.real('dmin%d' % i), c.real('dmax%d' % i)
            tmin, tmax = c.real('tmin%d' % i), c.real('tmax%d' % i)
            ip.ctx.assume(sym.zbool(sym.And(sym.le(0, dmin), sym.le(dmin, dmax))))
            table[i] = ((dmin, tmin), (dmax, tmax))
        return table[i]
    for cls in ('Line', 'QuadraticBezier', 'CubicBezier'):
        c.ip.summaries['path.%s.radialrange' % cls] = rr
    return table


@contract('C13', 'path.Path.radialrange', params=[dict(p, _no_bounded=True) for p in PATH_SHAPES], level='per-shape')
def path_radialrange(c, kinds):
    path, segs, pts = mkpath(c, kinds)
    z = c.cplx('z')
    table = _install_segment_radialrange(c, segs)
    mn, mx = c.items(c.callm(path, 'radialrange', z))
    dmin, tmin, imin = c.items(mn)
    dmax, tmax, imax = c.items(mx)
    n = len(segs)
    c.ensures('every-segment-is-consulted', sorted(table) == list(range(n)))
    if sorted(table) != list(range(n)):
        return
    # some point of the path is not the query point (otherwise no farthest segment exists)
    c.assume(ops.Or(*[ops.lt(0, table[i][1][0]) for i in range(n)]))
    c.ensures('min-index-in-range', isinstance(imin, int) and 0 <= imin < n)
    c.ensures('max-index-in-range', isinstance(imax, int) and 0 <= imax < n)
    if not (isinstance(imin, int) and isinstance(imax, int)):
        return
    c.ensures('(dmin,tmin)-is-the-result-of-segment-imin', ops.And(ops.eq(dmin, table[imin][0][0]), ops.eq(tmin, table[imin][0][1])))
    c.ensures('(dmax,tmax)-is-the-result-of-segment-imax', ops.And(ops.eq(dmax, table[imax][1][0]), ops.eq(tmax, table[imax][1][1])))
    for i in range(n):
        c.ensures('dmin<=min-of-segment-%d' % i, ops.le(dmin, table[i][0][0]))
        c.ensures('dmax>=max-of-segment-%d' % i, ops.le(table[i][1][0], dmax))
    got = {}

    def spy(ip, f, args, kwargs):
        got['a'] = args
        return ('MIN', 'MAX')
    c.ip.summaries['path.Path.radialrange'] = spy
    c.ensures('closest_point_in_path==radialrange(pt)[0]', c.call('path.closest_point_in_path', z, path) == 'MIN' and got['a'][0] is path and c.py_eq(got['a'][1], z) is True)
    c.ensures('farthest_point_in_path==radialrange(pt)[1]', c.call('path.farthest_point_in_path', z, path) == 'MAX' and got['a'][0] is path)


@contract('C13', 'path.Path.radialrange', params=[{'kinds': k, '_bounded_only': True} for k in ['L', 'LQ', 'QLC', 'CC']])
def path_radialrange_against_dense_sampling(c, kinds):
    path, segs, pts = mkpath(c, kinds)
    z = c.cplx('z')
    for P in pts:
        if len(P) == 2:
            c.assume(P[0] != P[1])
    mn, mx = c.callm(path, 'radialrange', z)
    best = None
    far = None
    for i, P in enumerate(pts):
        for k in range(201):
            d = abs(bez.bern(P, k / 200.0) - z)
            best = d if best is None else min(best, d)
            far = d if far is None else max(far, d)
    c.ensures('dmin<=sampled', ops.le(mn[0], best))
    c.ensures('dmax>=sampled', ops.le(far, mx[0]))
    c.ensures('index-and-parameter-attain-it', ops.And(ops.eq(mn[0], abs(bez.bern(pts[mn[2]], mn[1]) - z)),
                                                        ops.eq(mx[0], abs(bez.bern(pts[mx[2]], mx[1]) - z))))
    c.ensures('closest/farthest', c.call('path.closest_point_in_path', z, path) == mn and c.call('path.farthest_point_in_path', z, path) == mx)
