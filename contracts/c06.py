"""C06 -- length() is the true arc length: bracketed, additive, finite, scipy-independent.

Reach is partial and the claim is limited accordingly (DESIGN.md section 3, C06): closed forms
(Line, QuadraticBezier small-|a| and collinear cases), structural facts (non-negativity, chord
lower bracket of the recursive fallback, paths as sums, both scipy configurations) are proved;
accuracy of numerical quadrature is not a contract matter and is only sampled by the bounded
companion."""
from pyvc.dsl import contract
from pyvc import ops
from specs import bez
from contracts.c03 import CLASSES, NAMES, mkseg
from contracts.c05 import mkpath, seg_lengths


@contract('C06', 'path.Line.length')
def line_length(c):
    P, seg = mkseg(c, 2)
    t0, t1, t2 = c.real('t0'), c.real('t1'), c.real('t2')
    chord = ops.absv(P[1] - P[0])
    L01 = c.callm(seg, 'length', t0, t1)
    c.ensures('length(t0,t1)==|end-start|*(t1-t0)', ops.eq(L01, chord * (t1 - t0)))
    c.ensures('non-negative-for-t0<=t1', ops.Implies(ops.le(t0, t1), ops.le(0, L01)))
    c.ensures('additive', ops.eq(L01 + c.callm(seg, 'length', t1, t2), c.callm(seg, 'length', t0, t2)))
    c.ensures('length()==|end-start|', ops.eq(c.callm(seg, 'length'), chord))
    # it is the arc length: |d/dt point(t)| is the constant |end-start|
    c.ensures('speed-is-constant', ops.eq(ops.norm2(bez.dbern(P, t0, 1)), chord * chord))


@contract('C06', 'path.QuadraticBezier.length', budget=120)
def quadratic_length_when_it_is_a_line(c):
    """a == 0 (the quadratic is a linearly parameterised segment): |b|*(t1-t0) exactly"""
    P, seg = mkseg(c, 3)
    t0, t1 = c.real('t0'), c.real('t1')
    c.assume(ops.eq(P[0] - 2 * P[1] + P[2], 0))
    b = 2 * (P[1] - P[0])
    L = c.callm(seg, 'length', t0, t1)
    c.ensures('length==|b|*(t1-t0)', ops.eq(L, ops.absv(b) * (t1 - t0)))
    c.ensures('speed-is-|b|', ops.eq(ops.norm2(bez.dbern(P, t0, 1)), ops.norm2(b)))


def _collinear_quadratic(c, vertical):
    p, l1, l2 = c.real('p'), c.real('l1'), c.real('l2')
    q = c.real('q')
    mk = (lambda x: ops.cx(q, x)) if vertical else (lambda x: ops.cx(x, q))
    P = [mk(p), mk(p + l1), mk(p + l2)]
    return P, c.new('path.QuadraticBezier', *P), l1, l2


@contract('C06', 'path.QuadraticBezier.length', params=[{'vertical': v, '_no_bounded': True} for v in (False, True)], budget=240,
          note='collinear control points on an axis-parallel line (fold-back included): exact length of the folded segment')
def quadratic_length_collinear(c, vertical):
    P, seg, l1, l2 = _collinear_quadratic(c, vertical)
    t0, t1 = c.real('t0'), c.real('t1')
    c.assume(ops.And(ops.le(0, t0), ops.le(t0, t1), ops.le(t1, 1)))
    m0 = 2 * l1                      # signed speed sigma(t) = m0 + m1*t along the line
    m1 = 2 * (l2 - 2 * l1)
    c.assume(ops.Or(ops.le(c.const('1e-12'), m1 / 2), ops.le(m1 / 2, -c.const('1e-12'))))   # |a| >= 1e-12: generic branch
    c.numpy_floats(True)
    L = c.callm(seg, 'length', t0, t1)
    c.ensures('finite', c.is_finite(L))
    if not c.is_finite(L):
        return
    f = lambda t: m0 * t + m1 * t * t / 2          # antiderivative of the signed speed
    s0, s1 = m0 + m1 * t0, m0 + m1 * t1
    tstar = -m0 / m1
    same_sign = ops.Or(ops.And(ops.le(0, s0), ops.le(0, s1)), ops.And(ops.le(s0, 0), ops.le(s1, 0)))
    c.ensures('non-negative', ops.le(0, L))
    c.ensures('no-fold-inside:|f(t1)-f(t0)|', ops.Implies(same_sign, ops.eq(L, ops.absv(f(t1) - f(t0)))))
    c.ensures('fold-inside:|f(t*)-f(t0)|+|f(t1)-f(t*)|',
              ops.Implies(ops.Not(same_sign), ops.eq(L, ops.absv(f(tstar) - f(t0)) + ops.absv(f(t1) - f(tstar)))))


def _segment_length_contract(c, record=None):
    """call-site contract of segment_length (its own obligations: segment_length_induction_step):
    a value >= |end_point - start_point| (hence >= 0)"""
    from pyvc import sym

    def sl(ip, f, args, kwargs):
        curve, start, end, sp, ep = args[:5]
        r = ip.ctx.fresh_real('seglen')
        ip.ctx.assume(sym.zbool(sym.And(sym.le(0, r), sym.le(sym.absv(sym.sub(ep, sp)), r))))
        if record is not None:
            record.append((args, kwargs, r))
        return r
    c.ip.summaries['path.segment_length'] = sl


@contract('C06', 'path.segment_length', params=[{'_no_bounded': True}], budget=120)
def segment_length_induction_step(c):
    """one level of the recursion with the recursive calls replaced by the contract being proved
    (partial correctness by induction on the recursion depth; termination is not proved).
    The curve enters only through curve.point(mid): an arbitrary point M (cut)."""
    P, seg = mkseg(c, 4)
    a, b = c.real('a'), c.real('b')
    sp, ep, M = c.cplx('start_point'), c.cplx('end_point'), c.cplx('M')
    err, md, depth = c.real('error'), c.int('min_depth'), c.int('depth')
    calls = []
    _segment_length_contract(c, calls)
    asked = []

    def point_cut(ip, f, args, kwargs):
        asked.append(args[1])
        return M
    c.ip.summaries['path.CubicBezier.point'] = point_cut
    r = c.ip.run_func(c.glob('path.segment_length'), [seg, a, b, sp, ep, err, md, depth], {})
    chord = ops.absv(ep - sp)
    c.use_lemma('triangle', sp, ep, M)
    c.ensures('evaluates-the-curve-at-the-midpoint-only', len(asked) == 1 and ops.eq(asked[0], (a + b) / 2))
    c.ensures('result>=chord', ops.le(chord, r))
    c.ensures('result>=0', ops.le(0, r))
    if calls:
        mid = (a + b) / 2
        c.ensures('recurses-on-the-two-halves', len(calls) == 2 and
                  ops.And(ops.eq(calls[0][0][1], a), ops.eq(calls[0][0][2], mid), ops.eq(calls[1][0][1], mid), ops.eq(calls[1][0][2], b),
                          ops.eq(calls[0][0][3], sp), ops.eq(calls[0][0][4], M),
                          ops.eq(calls[1][0][3], M), ops.eq(calls[1][0][4], ep)))
        c.ensures('same-curve-in-both-halves', calls[0][0][0] is seg and calls[1][0][0] is seg)
        c.ensures('result-is-the-sum-of-the-halves', ops.eq(r, calls[0][2] + calls[1][2]))
        c.ensures('tolerances-passed-down-and-depth-increased',
                  ops.And(*[ops.And(ops.eq(cl[0][5], err), ops.eq(cl[0][6], md), ops.eq(cl[0][7], depth + 1)) for cl in calls]))
    else:
        c.ensures('leaf-returns-the-two-chord-sum', ops.eq(r, ops.absv(M - sp) + ops.absv(ep - M)))
        c.ensures('leaf-only-when-accurate-enough-and-deep-enough',
                  ops.And(ops.le(r - chord, err), ops.le(md, depth)))


@contract('C06', 'path.CubicBezier.length', params=[{'scipy': s, '_no_bounded': True} for s in (True, False)], budget=120)
def cubic_length_structure(c, scipy):
    """both configurations: scipy quadrature (assumed: an uninterpreted value >= 0) and the
    pure-Python fallback (segment_length contract: >= chord >= 0)"""
    P, seg = mkseg(c, 4)
    t0, t1 = c.real('t0'), c.real('t1')
    c.assume(ops.And(ops.le(0, t0), ops.le(t0, t1), ops.le(t1, 1)))
    c.ip.module('path').vars['_quad_available'] = scipy
    calls = []
    _segment_length_contract(c, calls)
    qcalls = []

    def quad_model(ip, a, k):
        q = ip.ctx.fresh_real('quad')
        ip.ctx.assume(q.t >= 0)
        qcalls.append((a, k, q))
        return (q, 0)
    from pyvc import interp as I
    c.ip.quad_model = I.Builtin('quad(model)', quad_model)
    L = c.callm(seg, 'length', t0, t1)
    c.ensures('non-negative', ops.le(0, L))
    if scipy:
        a, k, q = qcalls[0]
        c.ensures('one-quadrature-over-[t0,t1]', len(qcalls) == 1 and ops.And(ops.eq(a[1], t0), ops.eq(a[2], t1)))
        tau = c.real('tau')
        c.ensures('integrand-is-the-speed', ops.eq(c.call(a[0], tau) * c.call(a[0], tau), ops.norm2(bez.dbern(P, tau, 1))))
        c.ensures('returns-the-quadrature-value', ops.eq(L, q))
    else:
        c.ensures('no-quadrature-without-scipy', len(qcalls) == 0)
        (args, kw, r) = calls[0]
        c.ensures('fallback-over-[t0,t1]-from-point(t0)-to-point(t1)',
                  len(calls) == 1 and args[0] is seg and ops.And(ops.eq(args[1], t0), ops.eq(args[2], t1), ops.eq(args[3], bez.bern(P, t0)),
                                                                ops.eq(args[4], bez.bern(P, t1)), ops.eq(args[7], 0)))
        c.ensures('at-least-the-chord', ops.le(ops.absv(bez.bern(P, t1) - bez.bern(P, t0)), L))


@contract('C06', 'path.Path.length', params=[{'kinds': k} for k in ['L', 'QC', 'LQC', 'CLL']], level='per-shape')
def path_length_is_sum(c, kinds):
    path, segs, pts = mkpath(c, kinds)
    lens = seg_lengths(c, segs)
    c.ensures('length()==sum-of-segment-lengths', ops.eq(c.callm(path, 'length'), sum(lens[1:], lens[0])))
    c.ensures('non-negative', ops.le(0, c.callm(path, 'length')))


@contract('C06', 'path.Path.length', params=[{'kinds': k, '_no_bounded': True} for k in ['LL', 'LLL']], level='per-shape', budget=120)
def path_partial_length_decomposes(c, kinds):
    """length(T0,T1) = tail of the first segment + whole segments between + head of the last"""
    path, segs, pts = mkpath(c, kinds)
    lens = seg_lengths(c, segs)
    c.assume(ops.And(*[ops.lt(0, x) for x in lens]))
    T0, T1 = c.real('T0'), c.real('T1')
    c.assume(ops.And(ops.lt(0, T0), ops.lt(T0, T1), ops.lt(T1, 1)))
    L = c.callm(path, 'length')
    r = c.callm(path, 'length', T0, T1)
    c.ensures('length(T0,T1)==(T1-T0)*length()-for-polylines', ops.eq(r, (T1 - T0) * L))


@contract('C06', 'path.Path.length', params=[{'kinds': k, 'scipy': s, '_bounded_only': True} for k in ['L', 'Q', 'C', 'QC'] for s in (True, False)])
def length_against_independent_quadrature(c, kinds, scipy):
    """bounded companion only: bracket [chords, control polygons] of a fine subdivision,
    additivity, finiteness -- with and without scipy"""
    import math
    import svgpathtools.path as sp
    path, segs, pts = mkpath(c, kinds)
    old = sp._quad_available
    sp._quad_available = scipy
    try:
        for seg, P in zip(segs, pts):
            if len(P) == 2:
                c.assume(P[0] != P[1])
            t0, t1 = sorted([c.real('ta'), c.real('tb')])
            t0, t1 = min(max(t0, 0.0), 1.0), min(max(t1, 0.0), 1.0)
            L = seg.length(t0, t1)
            N = 2000
            ts = [t0 + (t1 - t0) * k / N for k in range(N + 1)]
            ch = sum(abs(bez.bern(P, ts[k + 1]) - bez.bern(P, ts[k])) for k in range(N))
            sc = max(1.0, max(abs(z) for z in P))
            c.ensures('finite-and-non-negative', math.isfinite(L) and L >= 0)
            c.ensures('at-least-the-chord-sum', L >= ch - 1e-6 * sc)
            c.ensures('close-to-the-chord-sum-of-a-fine-subdivision', abs(L - ch) <= 5e-3 * max(ch, 1e-9) + 1e-9 * sc)
            tm = 0.5 * (t0 + t1)
            c.ensures('additive', abs(seg.length(t0, tm) + seg.length(tm, t1) - L) <= 1e-6 * max(L, 1e-9) + 1e-9 * sc)
            # the segment was new and has only been asked for parts so far: the whole length now
            if scipy:      # (only with the quadrature: the chord recursion is slow)
                whole = seg.length()
                chw = sum(abs(bez.bern(P, (k + 1) / float(N)) - bez.bern(P, k / float(N))) for k in range(N))
                c.ensures('whole-length-after-partial-queries', abs(whole - chw) <= 5e-3 * max(chw, 1e-9) + 1e-9 * sc)
                c.ensures('partial-length-after-the-whole', abs(seg.length(t0, t1) - L) <= 1e-9 * max(L, 1e-9) + 1e-12 * sc)
    finally:
        sp._quad_available = old


@contract('C06', 'path.QuadraticBezier.length', params=[{'axis': a, '_bounded_only': True} for a in ('x', 'any')])
def collinear_quadratic_length_is_finite(c, axis):
    """bounded companion only: collinear control points (fold-back included) in floats"""
    import math
    p, l1, l2 = c.cplx('p'), c.real('l1'), c.real('l2')
    d = 1.0 if axis == 'x' else c.cplx('d')
    c.assume(d != 0 and l1 != 0 and l2 != l1)
    if axis == 'x':
        p = complex(p.real, 0.0)
    P = [p, p + l1 * d, p + l2 * d]
    seg = c.new('path.QuadraticBezier', *P)
    t0, t1 = sorted([min(max(c.real('ta'), 0.0), 1.0), min(max(c.real('tb'), 0.0), 1.0)])
    L = seg.length(t0, t1)
    N = 4000
    ts = [t0 + (t1 - t0) * k / N for k in range(N + 1)]
    ch = sum(abs(bez.bern(P, ts[k + 1]) - bez.bern(P, ts[k])) for k in range(N))
    sc = max(1.0, max(abs(z) for z in P))
    c.ensures('finite-and-non-negative', math.isfinite(L) and L >= 0)
    c.ensures('close-to-the-chord-sum-of-a-fine-subdivision', math.isfinite(L) and abs(L - ch) <= 5e-3 * max(ch, 1e-9) + 1e-9 * sc)


@contract('C06', 'path.Arc.length', params=[{'scipy': s, 'whole': w, '_no_bounded': True} for s in (True, False) for w in (False, True)], budget=120)
def arc_length_structure(c, scipy, whole):
    """Arc.length for an Arc in any stored parameter state, both configurations: one quadrature
    of the speed |d/dt point| over [t0,t1] (scipy), or the chord recursion from point(t0) to
    point(t1) (segment_length contract: >= chord >= 0); the whole-arc call goes through the
    hash-keyed cache and computes the same thing"""
    from contracts.c04 import arc_state
    arc, p = arc_state(c)
    c.ip.module('path').vars['_quad_available'] = scipy
    if whole:
        t0, t1 = 0, 1
    else:
        t0, t1 = c.real('t0'), c.real('t1')
        c.assume(ops.And(ops.le(0, t0), ops.lt(t0, t1), ops.le(t1, 1), ops.Not(ops.And(ops.eq(t0, 0), ops.eq(t1, 1)))))
    calls = []
    _segment_length_contract(c, calls)
    qcalls = []

    def quad_model(ip, a, k):
        q = ip.ctx.fresh_real('quad')
        ip.ctx.assume(q.t >= 0)
        qcalls.append((a, k, q))
        return (q, 0)
    from pyvc import interp as I
    c.ip.quad_model = I.Builtin('quad(model)', quad_model)
    L = c.callm(arc, 'length', t0, t1) if not whole else c.callm(arc, 'length')
    c.ensures('non-negative', ops.le(0, L))
    z0, z1 = c.callm(arc, 'point', t0), c.callm(arc, 'point', t1)
    if scipy:
        c.ensures('one-quadrature-and-no-recursion', len(qcalls) == 1 and len(calls) == 0)
        a, k, q = qcalls[0]
        c.ensures('quadrature-over-[t0,t1]', ops.And(ops.eq(a[1], t0), ops.eq(a[2], t1)))
        tau = c.real('tau')
        v = c.call(a[0], tau)
        d = c.ddt(c.callm(arc, 'point', tau), tau)
        c.ensures('integrand-is-the-speed', ops.And(ops.le(0, v), ops.eq(v * v, ops.norm2(d))))
        c.ensures('returns-the-quadrature-value', ops.eq(L, q))
    else:
        c.ensures('no-quadrature-without-scipy', len(qcalls) == 0)
        c.ensures('one-recursion', len(calls) == 1)
        (args, kw, r) = calls[0]
        c.ensures('fallback-over-[t0,t1]-from-point(t0)-to-point(t1)',
                  args[0] is arc and ops.And(ops.eq(args[1], t0), ops.eq(args[2], t1), ops.eq(args[3], z0), ops.eq(args[4], z1), ops.eq(args[7], 0)))
        c.ensures('at-least-the-chord', ops.le(ops.absv(z1 - z0), L))
