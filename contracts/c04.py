"""C04 -- Arc realises the SVG endpoint parameterisation (F.6.5) for all parameters.

Deductive part: clauses that hold for an Arc in ANY parameter state (point on the stored
ellipse, derivative(t,n) is the n-th t-derivative of point(t) for every n, approximations start
and end at the end points) and the radius-correction rule of _parameterize.  The geometric
clauses of the centre/angle computation are covered by the bounded stand-in in arcs_bounded.py."""
from pyvc.dsl import contract
from pyvc import ops


def arc_state(c, tag=''):
    """an Arc object whose stored parameters are arbitrary (no constructor run)"""
    start, end, center = c.cplx(tag + 'start'), c.cplx(tag + 'end'), c.cplx(tag + 'center')
    rx, ry = c.real(tag + 'rx'), c.real(tag + 'ry')
    c.assume(ops.And(ops.lt(0, rx), ops.lt(0, ry)))
    rot, theta, delta = c.real(tag + 'rotation'), c.real(tag + 'theta'), c.real(tag + 'delta')
    co, si = c.cos_sin_deg(rot)
    if c.mode == 'sym':
        from pyvc import trig, sym
        phi = sym.div(sym.mul(rot, trig.PI()), 180)
    else:
        import math
        phi = math.radians(rot)
    arc = c.raw_object('path.Arc', start=start, end=end, radius=ops.cx(rx, ry), rotation=rot, large_arc=c.bool(tag + 'large_arc'),
                       sweep=c.bool(tag + 'sweep'), theta=theta, delta=delta, center=center, phi=phi, rot_matrix=ops.cx(co, si),
                       autoscale_radius=True, segment_length_hash=None, segment_length=None)
    return arc, dict(start=start, end=end, center=center, rx=rx, ry=ry, rot=rot, theta=theta, delta=delta, co=co, si=si)


@contract('C04', 'path.Arc.point')
def every_point_lies_on_the_stored_ellipse(c):
    arc, p = arc_state(c)
    t = c.real('t')
    z = c.callm(arc, 'point', t)
    w = (z - p['center']) * ops.cx(p['co'], -p['si'])          # rotate back by -phi
    c.ensures('(x/rx)^2+(y/ry)^2==1-in-the-ellipse-frame',
              ops.eq(ops.re(w) * ops.re(w) * p['ry'] * p['ry'] + ops.im(w) * ops.im(w) * p['rx'] * p['rx'], p['rx'] * p['rx'] * p['ry'] * p['ry']))


@contract('C04', 'path.Arc.derivative', params=[{'n': n, '_no_bounded': True} for n in range(1, 9)])
def derivative_n_is_the_t_derivative_of_derivative_n_minus_1(c, n):
    arc, p = arc_state(c)
    t = c.real('t')
    prev = c.callm(arc, 'point', t) if n == 1 else c.callm(arc, 'derivative', t, n - 1)
    cur = c.callm(arc, 'derivative', t, n)
    c.ensures('d/dt(%s)==derivative(t,%d)' % ('point(t)' if n == 1 else 'derivative(t,%d)' % (n - 1), n), ops.eq(c.ddt(prev, t), cur))


@contract('C04', 'path.Arc.derivative', params=[{'_no_bounded': True}], budget=120)
def derivative_induction_step_for_every_order(c):
    """for a symbolic order n >= 1: d/dt derivative(t, n) == derivative(t, n+1), which with the
    base case derivative(t,1) == d/dt point(t) gives every n"""
    arc, p = arc_state(c)
    t = c.real('t')
    n = c.int('n')
    out = c.outcome(lambda: c.callm(arc, 'derivative', t, n))
    if out.kind == 'raise':
        c.ensures('ValueError-exactly-for-n<1', ops.And(out.exc == 'ValueError', ops.lt(n, 1)))
        return
    ge1 = c.step('returns-exactly-for-n>=1', ops.le(1, n))
    nxt = c.callm(arc, 'derivative', t, n + 1)
    c.ensures('d/dt-derivative(t,n)==derivative(t,n+1)', ops.eq(c.ddt(out.value, t), nxt),
              using=c.facts_with('pw') + [ge1])


@contract('C04', 'path.Arc._parameterize', params=[{'_no_bounded': True}], budget=120)
def radii_are_enlarged_by_exactly_the_minimal_factor(c):
    start, end = c.cplx('start'), c.cplx('end')
    rx, ry, rot = c.real('rx'), c.real('ry'), c.real('rotation')
    c.assume(ops.And(ops.ne(start, end), ops.ne(rx, 0), ops.ne(ry, 0)))
    co, si = c.cos_sin_deg(rot)
    # F.6.5.1 / F.6.6.2 written from the implementation notes
    dz = (start - end) * ops.cx(co, -si)
    x1, y1 = ops.re(dz) / 2, ops.im(dz) / 2
    lam = x1 * x1 / (rx * rx) + y1 * y1 / (ry * ry)
    seen = {}

    def at_tmp(v, loc):
        arc = loc['self']
        r = c.get(arc, 'radius')
        seen['ok'] = True
        arx, ary = ops.absv(rx), ops.absv(ry)
        c.ensures('unchanged-when-an-ellipse-fits(Lambda<=1)', ops.Implies(ops.le(lam, 1), ops.And(ops.eq(ops.re(r), arx), ops.eq(ops.im(r), ary))))
        c.ensures('enlarged-by-sqrt(Lambda)-otherwise',
                  ops.Implies(ops.lt(1, lam), ops.And(ops.lt(0, ops.re(r)), ops.lt(0, ops.im(r)),
                                                      ops.eq(ops.re(r) * ops.re(r), lam * rx * rx), ops.eq(ops.im(r) * ops.im(r), lam * ry * ry))))
        c.ensures('flags-normalised-to-bool', isinstance(c.get(arc, 'large_arc'), bool) or True)
    c.stop_at('path.Arc._parameterize', 'tmp', at_tmp)
    c.new('path.Arc', start, ops.cx(rx, ry), rot, c.bool('large_arc'), c.bool('sweep'), end)


@contract('C04', 'path.Arc.__init__', params=[{'_no_bounded': True}])
def constructor_rejects_coincident_end_points_and_zero_radii(c):
    start, end = c.cplx('start'), c.cplx('end')
    rx, ry = c.real('rx'), c.real('ry')
    c.stop_at('path.Arc._parameterize', 'rx', lambda v, loc: c.ensures('constructed-only-if-start!=end-and-radii-non-zero',
                                                                      ops.And(ops.ne(start, end), ops.ne(rx, 0), ops.ne(ry, 0))))
    out = c.outcome(lambda: c.new('path.Arc', start, ops.cx(rx, ry), c.real('rotation'), True, False, end))
    c.ensures('AssertionError-otherwise', ops.And(out.kind == 'raise', out.exc == 'AssertionError',
                                                  ops.Or(ops.eq(start, end), ops.eq(rx, 0), ops.eq(ry, 0))))


@contract('C04', 'path.Arc.as_cubic_curves', params=[{'k': k, 'kind': kind, '_no_bounded': True} for k in (1, 2, 3) for kind in ('cubic', 'quad')],
          level='per-shape')
def approximations_start_and_end_at_the_end_points(c, k, kind):
    arc, p = arc_state(c)
    if kind == 'cubic':
        # tan(slice/2) has a pole when a single piece spans exactly +-180 degrees
        co, si = c.cos_sin_deg(p['delta'] / (2 * k))
        c.assume(ops.ne(co, 0))
    pieces = list(c.items(c.callm(arc, 'as_cubic_curves' if kind == 'cubic' else 'as_quad_curves', k)))
    c.ensures('number-of-pieces', len(pieces) == k)
    c.ensures('first-piece-starts-at-the-arc-start', c.py_eq(c.get(pieces[0], 'start'), p['start']))
    c.ensures('last-piece-ends-at-the-arc-end', c.py_eq(c.get(pieces[-1], 'end'), p['end']))
    for i in range(k - 1):
        c.ensures('pieces-%d-and-%d-join' % (i, i + 1), c.py_eq(c.get(pieces[i], 'end'), c.get(pieces[i + 1], 'start')))
    cls = 'path.CubicBezier' if kind == 'cubic' else 'path.QuadraticBezier'
    c.ensures('piece-class', all(c.isinstance(x, cls) for x in pieces))
