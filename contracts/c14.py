"""C14 -- area() is the signed enclosed area; enclosure tests agree with crossing parity."""
from pyvc.dsl import contract
from pyvc import ops
from specs import bez
from contracts.c05 import mkpath, KIND
from contracts.c10 import affine

CLOSED_SHAPES = [{'kinds': k} for k in ['LLL', 'QC', 'CC', 'LQC', 'LLLL']]


def mkclosed(c, kinds):
    """closed continuous Bezier path: consecutive end points are the same symbols"""
    n = len(kinds)
    corners = [c.cplx('V%d' % i) for i in range(n)]
    segs, pts = [], []
    for i, k in enumerate(kinds):
        qual, m = KIND[k]
        P = [corners[i]] + [c.cplx('s%d_C%d' % (i, j)) for j in range(1, m - 1)] + [corners[(i + 1) % n]]
        pts.append(P)
        segs.append(c.new(qual, *P))
    return c.new('path.Path', *segs), segs, pts


def green(pts):
    s = 0
    for P in pts:
        s = s + bez.green_integral(P)
    return s


@contract('C14', 'path.Path.area', params=CLOSED_SHAPES, level='per-shape')
def area_is_green_integral(c, kinds):
    path, segs, pts = mkclosed(c, kinds)
    a = c.callm(path, 'area')
    c.ensures('area()==closed-line-integral-of-x-dy', ops.eq(a, green(pts)))


@contract('C14', 'path.Path.area', params=[{'kinds': 'LL'}, {'kinds': 'LQ'}], level='per-shape')
def area_requires_closed_path(c, kinds):
    path, segs, pts = mkpath(c, kinds)
    closed = ops.And(ops.eq(pts[0][-1], pts[1][0]), ops.eq(pts[1][-1], pts[0][0]))
    out = c.outcome(lambda: c.callm(path, 'area'))
    if out.kind == 'ok':
        c.ensures('returns-only-for-closed-continuous-paths', closed)
    else:
        c.ensures('AssertionError-otherwise', ops.And(out.exc == 'AssertionError', ops.Not(closed)))


@contract('C14', 'path.Path.area', params=[dict(p, sym=s) for p in CLOSED_SHAPES for s in ('reversed', 'translated', 'scaled', 'transform')],
          level='per-shape', budget=120)
def area_symmetries(c, kinds, sym):
    """sign change under reversal, translation invariance, scaling by the determinant --
    through the real operations on the real area()"""
    path, segs, pts = mkclosed(c, kinds)
    a = c.callm(path, 'area')
    if sym == 'reversed':
        rev = c.callm(path, 'reversed')
        c.ensures('area(reversed())==-area()', ops.eq(c.callm(rev, 'area'), -a))
    elif sym == 'translated':
        z = c.cplx('z')
        c.ensures('area(translated(z))==area()', ops.eq(c.callm(c.callm(path, 'translated', z), 'area'), a))
    elif sym == 'scaled':
        sx, sy = c.real('sx'), c.real('sy')
        c.ensures('area(scaled(sx,sy))==sx*sy*area()', ops.eq(c.callm(c.callm(path, 'scaled', sx, sy), 'area'), sx * sy * a))
    else:
        M = [[c.real('m%d%d' % (i, j)) for j in range(3)] for i in range(2)]
        det = M[0][0] * M[1][1] - M[0][1] * M[1][0]
        c.assume(ops.ne(M[0][2], 0))
        tp = c.call('path.transform', path, c.matrix(M + [[0, 0, 1]]))
        c.ensures('area(transform(M))==det(M)*area()', ops.eq(c.callm(tp, 'area'), det * a))


@contract('C14', 'path.Path.area', params=[{'_no_bounded': True}])
def unit_square_counter_clockwise_is_plus_one(c):
    """orientation convention pinned on a concrete polygon (Green: positive counter-clockwise)"""
    Line = lambda a, b: c.new('path.Line', a, b)
    V = [ops.cx(0, 0), ops.cx(1, 0), ops.cx(1, 1), ops.cx(0, 1)]
    sq = c.new('path.Path', *[Line(V[i], V[(i + 1) % 4]) for i in range(4)])
    c.ensures('ccw-unit-square==+1', ops.eq(c.callm(sq, 'area'), 1))
    c.ensures('cw-unit-square==-1', ops.eq(c.callm(c.callm(sq, 'reversed'), 'area'), -1))


@contract('C14', 'path.path_encloses_pt', params=[{'k': k, '_no_bounded': True} for k in range(0, 4)], level='relative',
          note='relative to the contract of Path.intersect (C11/C12): in general position the list holds the crossings, each once')
def path_encloses_pt_is_crossing_parity(c, k):
    path, segs, pts = mkclosed(c, 'LLL')
    pt, opt = c.cplx('pt'), c.cplx('opt')
    c.assume(ops.ne(pt, opt))
    seen = {}

    def intersect_contract(ip, f, args, kwargs):
        seen['self'] = args[0]
        seen['other'] = args[1]
        return ['X'] * k
    c.ip.summaries['path.Path.intersect'] = intersect_contract
    r = c.call('path.path_encloses_pt', pt, opt, path)
    probe = list(c.items(seen['self']))
    c.ensures('probe-is-the-segment-pt->opt', len(probe) == 1 and c.isinstance(probe[0], 'path.Line') and
              ops.And(ops.eq(c.get(probe[0], 'start'), pt), ops.eq(c.get(probe[0], 'end'), opt)))
    c.ensures('probe-intersected-with-the-path', seen['other'] is path)
    c.ensures('enclosed<=>odd-number-of-crossings', r is (k % 2 == 1))


@contract('C14', 'path.path_encloses_pt', params=[{'_no_bounded': True}])
def path_encloses_pt_requires_closed(c):
    path, segs, pts = mkpath(c, 'LL')
    closed = ops.And(ops.eq(pts[0][-1], pts[1][0]), ops.eq(pts[1][-1], pts[0][0]))
    c.ip.summaries['path.Path.intersect'] = lambda ip, f, a, k: []
    out = c.outcome(lambda: c.call('path.path_encloses_pt', c.cplx('pt'), c.cplx('opt'), path))
    c.ensures('asserts-closedness', ops.Iff(out.kind == 'ok', closed))


@contract('C14', 'path.Path.is_contained_by', params=[{'hit': h, 'enc': e, '_no_bounded': True} for h in (0, 1) for e in (0, 1)], level='relative',
          note='relative to the contracts of Path.intersect, Path.bbox (C08) and path_encloses_pt')
def is_contained_by(c, hit, enc):
    inner, isegs, ipts = mkpath(c, 'LL')
    outer, osegs, opts_ = mkclosed(c, 'LLL')
    c.assume(ops.Not(c.py_eq(inner, outer)))
    box = [c.real(n) for n in ('xmin', 'xmax', 'ymin', 'ymax')]
    # call-site contract of Path.bbox (C08): an ordered box that contains the path it is asked for
    ibox = [c.real(n) for n in ('ixmin', 'ixmax', 'iymin', 'iymax')]
    c.assume(ops.And(ops.le(box[0], box[1]), ops.le(box[2], box[3]), ops.le(ibox[0], ibox[1]), ops.le(ibox[2], ibox[3])))
    for P in ipts:
        for z in P:
            c.assume(ops.And(ops.le(ibox[0], ops.re(z)), ops.le(ops.re(z), ibox[1]), ops.le(ibox[2], ops.im(z)), ops.le(ops.im(z), ibox[3])))
    calls = {}
    c.ip.summaries['path.Path.intersect'] = lambda ip, f, a, k: (calls.setdefault('int', (a, k)) and None) or (['X'] if hit else [])
    c.ip.summaries['path.Path.bbox'] = lambda ip, f, a, k: tuple(box) if a[0] is outer else tuple(ibox)

    def enc_contract(ip, f, a, k):
        calls['enc'] = a
        return bool(enc)
    c.ip.summaries['path.path_encloses_pt'] = enc_contract
    r = c.callm(inner, 'is_contained_by', outer)
    start = ipts[0][0]
    in_box = ops.And(ops.le(box[0], ops.re(start)), ops.le(ops.re(start), box[1]), ops.le(box[2], ops.im(start)), ops.le(ops.im(start), box[3]))
    if 'int' in calls:
        c.ensures('intersection-test-is-self-vs-other', calls['int'][0][0] is inner and calls['int'][0][1] is outer)
    else:
        # no crossing test at all is acceptable only when containment is impossible anyway
        c.ensures('crossing-test-skipped-only-when-the-start-is-outside-the-box', ops.And(r is False, ops.Not(in_box)))
        return
    if hit:
        c.ensures('crossing-paths-are-not-contained', r is False)
        return
    c.ensures('outside-the-bounding-box->False', ops.Implies(ops.Not(in_box), r is False))
    if 'enc' in calls:
        a = calls['enc']
        c.ensures('probe-from-the-inner-start', ops.eq(a[0], start))
        c.ensures('probe-to-a-point-outside-the-outer-box', ops.And(ops.lt(ops.re(a[1]), box[0]), ops.lt(ops.im(a[1]), box[2])))
        c.ensures('enclosure-of-the-outer-path', a[2] is outer)
        c.ensures('result-is-the-enclosure-test', r is bool(enc))
    else:
        c.ensures('enclosure-test-skipped-only-outside-the-box', ops.Not(in_box))


@contract('C14', 'path.Path.is_contained_by', params=[{'_bounded_only': True}])
def is_contained_by_in_a_rectangle_sampled(c):
    """bounded stand-in: a polyline against a rectangle (convex, so the polyline is contained
    iff all its vertices are strictly inside); axis-aligned polylines included"""
    import svgpathtools.path as sp
    W, H = 1 + abs(c.real('W')) % 50, 1 + abs(c.real('H')) % 50
    o = c.cplx('o')
    rect = sp.Path(sp.Line(o, o + W), sp.Line(o + W, o + W + 1j * H), sp.Line(o + W + 1j * H, o + 1j * H), sp.Line(o + 1j * H, o))

    def vertex(tag):
        u, v = (abs(c.real(tag + 'u')) % 1.6) - 0.3, (abs(c.real(tag + 'v')) % 1.6) - 0.3
        return u, v
    (u0, v0), (u1, v1), (u2, v2) = vertex('a'), vertex('b'), vertex('d')
    mode = int(abs(c.real('mode')) * 10) % 3
    if mode == 1:
        v1 = v2 = v0            # horizontal
    elif mode == 2:
        u1 = u2 = u0            # vertical
    P = [o + W * u + 1j * H * v for (u, v) in ((u0, v0), (u1, v1), (u2, v2))]
    c.assume(abs(P[0] - P[1]) > 1e-6 and abs(P[1] - P[2]) > 1e-6)
    margin = 1e-3
    for (u, v) in ((u0, v0), (u1, v1), (u2, v2)):
        c.assume(all(abs(x) > margin and abs(x - 1) > margin for x in (u, v)))       # not on the boundary
    inner = sp.Path(sp.Line(P[0], P[1]), sp.Line(P[1], P[2]))
    want = all(0 < u < 1 and 0 < v < 1 for (u, v) in ((u0, v0), (u1, v1), (u2, v2)))
    c.ensures('contained-iff-all-vertices-strictly-inside', inner.is_contained_by(rect) == want)
