"""C11 -- every reported intersection is a real one, in range, with coherent parameters.
   C12 -- every transversal crossing is reported, exactly once  (contracts registered under C12)."""
import math
from pyvc.dsl import contract
from pyvc import ops
from specs import bez
from contracts.c03 import CLASSES, NAMES, mkseg
from contracts.c05 import mkpath


def two_lines(c):
    P = [c.cplx('p0'), c.cplx('p1')]
    Q = [c.cplx('q0'), c.cplx('q1')]
    return P, Q, c.new('path.Line', *P), c.new('path.Line', *Q)


@contract('C11', 'path.Line.intersect', budget=120)
def line_line_reported_pairs_are_real(c):
    P, Q, a, b = two_lines(c)
    out = c.outcome(lambda: c.callm(a, 'intersect', b))
    if out.kind != 'ok':
        # the code asserts non-degenerate, distinct lines
        c.ensures('raises-only-AssertionError-for-degenerate-or-identical-lines',
                  ops.And(out.exc == 'AssertionError', ops.Or(ops.eq(P[0], P[1]), ops.eq(Q[0], Q[1]), ops.And(ops.eq(P[0], Q[0]), ops.eq(P[1], Q[1])))))
        return
    res = list(c.items(out.value))
    c.ensures('at-most-one-pair', len(res) <= 1)
    for pr in res:
        t1, t2 = c.items(pr)
        c.ensures('parameters-in-[0,1]', ops.And(ops.le(0, t1), ops.le(t1, 1), ops.le(0, t2), ops.le(t2, 1)))
        c.ensures('points-coincide', ops.eq(bez.bern(P, t1), bez.bern(Q, t2)))


@contract('C11', 'path.Line.intersect', budget=120, tier='thorough')
def line_line_swap_transposes(c):
    P, Q, a, b = two_lines(c)
    c.assume(ops.And(ops.ne(P[0], P[1]), ops.ne(Q[0], Q[1]), ops.Not(ops.And(ops.eq(P[0], Q[0]), ops.eq(P[1], Q[1])))))
    r1 = list(c.items(c.callm(a, 'intersect', b)))
    r2 = list(c.items(c.callm(b, 'intersect', a)))
    c.ensures('same-number-of-crossings', len(r1) == len(r2))
    for x, y in zip(r1, r2):
        (t1, t2), (s2, s1) = c.items(x), c.items(y)
        c.ensures('parameters-exchanged', ops.And(ops.eq(t1, s1), ops.eq(t2, s2)))


def _bezier_line(c, n, m):
    P, seg = mkseg(c, n)
    L = [c.cplx('l0'), c.cplx('l1')]
    line = c.new('path.Line', *L)
    roots = [c.real('root%d' % i) for i in range(m)]
    got = {}

    def polyroots01_contract(ip, f, args, kwargs):
        got['p'] = args[0]
        return list(roots)
    c.ip.summaries['polytools.polyroots01'] = polyroots01_contract
    got['nd'] = c.assumed(ops.ne(L[0], L[1]))
    c.assume(ops.Or(*[ops.ne(p, P[0]) for p in P[1:]]))
    d = L[1] - L[0]
    w = ops.absv(d)

    # cut at `rotation_matrix = line_length/shifted_line_end`: what is proved about the quotient
    # is rho*d == |d|; execution continues with an opaque rho constrained by exactly that
    def cut(v):
        c.step('cut:rotation_matrix*(l1-l0)==|l1-l0|', ops.eq(v * d, ops.cx(w, 0)))
        rho = c.cplx('rho')
        got['rho_def'] = c.assumed(ops.eq(rho * d, ops.cx(w, 0)))
        got['rho'] = rho
        return rho
    c.cut_at('bezier.bezier_by_line_intersections', 'rotation_matrix', cut)
    return P, seg, L, line, roots, got, d, w


def _run_bezier_line(c, n, m):
    P, seg, L, line, roots, got, d, w = _bezier_line(c, n, m)
    res = [tuple(c.items(x)) for x in c.items(c.call('bezier.bezier_by_line_intersections', seg, line))]
    c.ensures('the-root-finder-is-consulted-for-every-curve-and-line', 'p' in got and 'rho' in got)
    if 'p' not in got or 'rho' not in got:
        c.cut()
    rho = got['rho']
    co = list(c.items(got['p']))
    t = c.real('t')
    # what the root finder is given: the imaginary part of the curve in the line's frame
    c.step('root-polynomial==Im(rho*(B(t)-l0))', ops.eq(bez.horner(co, t), ops.im(rho * (bez.bern(P, t) - L[0]))))
    # assumed contract of the root finder: numbers in [0,1] that are roots of what it was given
    for r in roots:
        c.assume(ops.And(ops.le(0, r), ops.le(r, 1), ops.eq(bez.horner(co, r), 0)))
    frames = []
    WF = c.witness_facts(w) if c.mode == 'sym' else []
    wpos = c.step('|d|>0', ops.lt(0, w), using=WF + [got['nd']])
    for r in roots:
        z = bez.bern(P, r) - L[0]
        on = c.step('root-is-on-the-carrier-line', ops.eq(ops.im(rho * z), 0))
        lem = c.use_lemma('line_frame', rho, d, w, z)
        # conclusion of the lemma instance, from its premises only
        X = ops.re(rho * z)
        concl = c.step('root-in-the-line-frame', ops.And(ops.eq(z * w, X * d), ops.eq(ops.dot(z, d), X * w)),
                       using=[lem, got['rho_def'], wpos, on] + WF)
        frames.append((z, X, concl))
    got['wpos'] = wpos
    c._rl_wpos = wpos
    return P, seg, L, roots, res, rho, d, w, frames


@contract('C11', 'bezier.bezier_by_line_intersections', params=[{'n': 4, 'm': 3, '_no_bounded': True}], level='relative', budget=120, tier='thorough')
def bezier_by_line_pairs_are_real_3_roots(c, n, m):
    return bezier_by_line_pairs_are_real(c, n, m)


@contract('C11', 'bezier.bezier_by_line_intersections',
          params=[{'n': n, 'm': m, '_no_bounded': True} for n in (3, 4) for m in range(0, min(n, 3))], level='relative', budget=120,
          note='relative to polyroots01 returning roots in [0,1] of the polynomial it is given (numpy.roots exact)')
def bezier_by_line_pairs_are_real(c, n, m):
    P, seg, L, roots, res, rho, d, w, frames = _run_bezier_line(c, n, m)
    c.ensures('no-more-pairs-than-roots', len(res) <= m)
    for (bt, lt) in res:
        ks = [k for k, r in enumerate(roots) if r is bt]
        c.ensures('bezier-parameter-is-one-of-the-roots', len(ks) == 1)
        if len(ks) != 1:
            continue
        z, X, concl = frames[ks[0]]
        ltw = c.step('line-parameter*|d|==abscissa-in-the-line-frame', ops.eq(lt * w, X))
        c.ensures('parameters-in-[0,1]', ops.And(ops.le(0, bt), ops.le(bt, 1), ops.le(0, lt), ops.le(lt, 1)))
        c.ensures('points-coincide', ops.eq((bez.bern(P, bt) - L[0]) * w, (lt * w) * d), using=[concl, ltw])


for _n in (3, 4):
    def _mk(n):
        def dispatch(c):
            P, seg = mkseg(c, n)
            L = [c.cplx('l0'), c.cplx('l1')]
            line = c.new('path.Line', *L)
            # overlapping boxes so the pre-filter does not short-cut
            calls = []

            def bbl(ip, f, args, kwargs):
                calls.append(args)
                return [('BT', 'LT')]
            c.ip.summaries['bezier.bezier_by_line_intersections'] = bbl
            r1 = c.outcome(lambda: list(c.items(c.callm(seg, 'intersect', line))))
            r2 = c.outcome(lambda: list(c.items(c.callm(line, 'intersect', seg))))
            c.ensures('both-orders-take-the-same-decision', (r1.kind, len(r1.value or [])) == (r2.kind, len(r2.value or [])))
            if r1.kind == 'ok' and r1.value:
                c.ensures('curve.intersect(line)-is-(bezier_t,line_t)', r1.value == [('BT', 'LT')] and calls[0][0] is seg and calls[0][1] is line)
                c.ensures('line.intersect(curve)-is-the-transposed-pair', [tuple(c.items(x)) for x in r2.value] == [('LT', 'BT')] and calls[1][0] is seg and calls[1][1] is line)
        dispatch.__name__ = 'line_curve_dispatch_%s' % NAMES[n]
        globals()[dispatch.__name__] = dispatch
        contract('C11', CLASSES[n] + '.intersect', params=[{'_no_bounded': True}])(dispatch)
    _mk(_n)


@contract('C11', 'path.Path.intersect', params=[{'k1': a, 'k2': b, 'hits': h, '_no_bounded': True}
                                                for a, b in (('L', 'L'), ('LQ', 'C'), ('CL', 'LL')) for h in (0, 1, 2)], level='per-shape')
def path_intersect_maps_parameters(c, k1, k2, hits):
    """every ((T1,seg1,t1),(T2,seg2,t2)): segments are members, (t1,t2) is what seg1.intersect(seg2)
    reported, T = t2T(seg, t); joint de-duplication only removes entries"""
    p1, s1, pts1 = mkpath(c, k1)
    p2, s2, pts2 = mkpath(c, k2, prefix='o')
    table = {}

    def seg_intersect(ip, f, args, kwargs):
        a, b = args[0], args[1]
        key = (id(a), id(b))
        if key not in table:
            i, j = [k for k, s in enumerate(s1) if s is a][0], [k for k, s in enumerate(s2) if s is b][0]
            n = hits if (i, j) == (0, 0) else 0
            table[key] = [(c.real('t1_%d%d_%d' % (i, j, k)), c.real('t2_%d%d_%d' % (i, j, k))) for k in range(n)]
            for (u, v) in table[key]:
                c.assume(ops.And(ops.le(0, u), ops.le(u, 1), ops.le(0, v), ops.le(v, 1)))
        return list(table[key])
    for cls in ('Line', 'QuadraticBezier', 'CubicBezier'):
        c.ip.summaries['path.%s.intersect' % cls] = seg_intersect
    t2T_calls = []

    def t2T(ip, f, args, kwargs):
        r = ip.ctx.fresh_real('T')
        t2T_calls.append((args[0], args[1], args[2], r))
        return r
    c.ip.summaries['path.Path.t2T'] = t2T
    c.assume(ops.Not(c.py_eq(p1, p2)))
    res = list(c.items(c.callm(p1, 'intersect', p2)))
    c.ensures('no-more-than-reported-by-the-segments', len(res) <= hits)
    for e in res:
        (T1, g1, t1), (T2, g2, t2) = [tuple(c.items(x)) for x in c.items(e)]
        c.ensures('segments-are-members', any(g1 is s for s in s1) and any(g2 is s for s in s2))
        pairs = table.get((id(g1), id(g2)), [])
        c.ensures('(t1,t2)-was-reported-by-seg1.intersect(seg2)', any(t1 is u and t2 is v for (u, v) in pairs))
        c.ensures('T1==path1.t2T(seg1,t1)', any(pp is p1 and sg is g1 and tt is t1 and r is T1 for (pp, sg, tt, r) in t2T_calls))
        c.ensures('T2==path2.t2T(seg2,t2)', any(pp is p2 and sg is g2 and tt is t2 and r is T2 for (pp, sg, tt, r) in t2T_calls))


# =============================================================================== C12

@contract('C12', 'path.Line.intersect', budget=120)
def line_line_transversal_crossing_is_reported_once(c):
    """carrier lines cross at parameters strictly inside (0,1)^2 at an angle of at least ~6
    degrees (|sin| >= 0.1): exactly that pair is reported.  Proved as a chain of small steps
    over abstracted quantities (A=|d1|^2, B=|d2|^2, C=d1 x d2, D=the code's denominator)."""
    P, Q, a, b = two_lines(c)
    s, t = c.real('s'), c.real('t')
    H_in = c.assumed(ops.And(ops.lt(0, s), ops.lt(s, 1), ops.lt(0, t), ops.lt(t, 1)))
    H_x = c.assumed(ops.eq(bez.bern(P, s), bez.bern(Q, t)))
    d1, d2, e = P[1] - P[0], Q[1] - Q[0], Q[0] - P[0]
    A, B, C = ops.norm2(d1), ops.norm2(d2), ops.cross(d1, d2)
    # |sin(angle)| >= 0.1  <=>  C^2 >= 0.01 |d1|^2 |d2|^2
    H_ang = c.assumed(ops.le(c.const('0.01') * A * B, C * C))
    H_nd = c.assumed(ops.And(ops.ne(P[0], P[1]), ops.ne(Q[0], Q[1])))
    res = [tuple(c.items(x)) for x in c.items(c.callm(a, 'intersect', b))]
    if c.mode != 'sym':
        c.ensures('reported-exactly-once', len(res) == 1)
        if len(res) == 1:
            c.ensures('at-the-true-parameters', ops.And(ops.eq(res[0][0], s), ops.eq(res[0][1], t)))
        return
    w1, w2 = ops.absv(d1), ops.absv(d2)
    WF = c.witness_facts(w1, w2)
    # the code's denominator, rebuilt with the code's own operation order
    ax, bx = (ops.re(P[0]), ops.re(P[1])), (ops.im(P[0]), ops.im(P[1]))
    cx_, dx = (ops.re(Q[0]), ops.re(Q[1])), (ops.im(Q[0]), ops.im(Q[1]))
    D = (ax[1] - ax[0]) * (dx[0] - dx[1]) - (bx[1] - bx[0]) * (cx_[0] - cx_[1])
    Av, Bv, Cv, Dv = c.real('A_'), c.real('B_'), c.real('C_'), c.real('D_')
    defs = [c.assumed(ops.eq(Av, A)), c.assumed(ops.eq(Bv, B)), c.assumed(ops.eq(Cv, C)), c.assumed(ops.eq(Dv, D))]
    pos = c.step('A>0,B>0', ops.And(ops.lt(0, Av), ops.lt(0, Bv)), using=[H_nd, defs[0], defs[1]])
    ang = c.step('C^2>=0.01*A*B', ops.le(c.const('0.01') * Av * Bv, Cv * Cv), using=[H_ang] + defs[:3])
    dc = c.step('D^2==C^2', ops.eq(Dv * Dv, Cv * Cv), using=[defs[2], defs[3]])
    ws = c.step('w1^2==A,w2^2==B', ops.And(ops.eq(w1 * w1, Av), ops.eq(w2 * w2, Bv), ops.le(0, w1), ops.le(0, w2)), using=WF + defs[:2])
    par = ops.le(ops.absv(Dv), c.const('1e-8') * w1 * w2)
    if not res:
        if c.known(ops.le(ops.absv(D), c.const('1e-8') * w1 * w2)) is True:
            pcp = c.step('path:parallel-exit-taken', par, using=None)
            c.ensures('reported-exactly-once', False, using=[pcp, pos, ang, dc, ws])
        else:
            # one of the four bounding-box pre-filter exits was taken: find which (it is a literal
            # of the path condition) and refute it from the crossing hypothesis alone
            done = False
            for part in (ops.re, ops.im):
                o0, o1, s0, s1_ = part(Q[0]), part(Q[1]), part(P[0]), part(P[1])
                mn = lambda u, v: ops.If(ops.lt(v, u), v, u)
                mx = lambda u, v: ops.If(ops.lt(u, v), v, u)
                for lit in (ops.lt(mx(s0, s1_), mn(o0, o1)), ops.lt(mx(o0, o1), mn(s0, s1_))):
                    if not done and c.known(lit) is True:
                        pl = c.step('path:bounding-boxes-disjoint-exit-taken', lit)
                        c.ensures('reported-exactly-once', False, using=[pl, H_in, H_x])
                        done = True
            if not done and c.known(ops.Not(ops.le(ops.absv(D), c.const('1e-8') * w1 * w2))) is True:
                # the final range test rejected the solution: rebuild the code's quotients and
                # show they are the true parameters, which lie strictly inside (0,1)
                npar = c.step('path:not-parallel', ops.Not(par))
                dnz = c.step('D!=0', ops.ne(Dv, 0), using=[npar, ws])
                N1 = cx_[0] * (bx[0] - dx[1]) - cx_[1] * (bx[0] - dx[0]) - ax[0] * (dx[0] - dx[1])
                N2 = -(ax[1] * (bx[0] - dx[0]) - ax[0] * (bx[1] - dx[0]) - cx_[0] * (bx[0] - bx[1]))
                th1, th2 = N1 / D, N2 / D
                s1 = c.step('s*D==-(e x d2)', ops.eq(s * Dv, -ops.cross(e, d2)), using=[H_x, defs[3]])
                s2 = c.step('t*D==-(e x d1)', ops.eq(t * Dv, -ops.cross(e, d1)), using=[H_x, defs[3]])
                q1 = c.step('t1*D==-(e x d2)', ops.eq(th1 * Dv, -ops.cross(e, d2)), using=[dnz, defs[3]])
                q2 = c.step('t2*D==-(e x d1)', ops.eq(th2 * Dv, -ops.cross(e, d1)), using=[dnz, defs[3]])
                for lit in (ops.Not(ops.le(0, th1)), ops.Not(ops.le(th1, 1)), ops.Not(ops.le(0, th2)), ops.Not(ops.le(th2, 1))):
                    if not done and c.known(lit) is True:
                        pl = c.step('path:range-test-rejected', lit)
                        c.ensures('reported-exactly-once', False, using=[pl, s1, s2, q1, q2, dnz, H_in])
                        done = True
            if not done:
                c.ensures('reported-exactly-once', False)
        return
    c.ensures('reported-exactly-once', len(res) == 1)
    t1, t2 = res[0]
    npar = c.step('path:not-parallel', ops.Not(par))
    dnz = c.step('D!=0', ops.ne(Dv, 0), using=[npar, ws])
    # Cramer: s*C == e x d2 and t*C == e x d1 from P(s) == Q(t); the code's quotients satisfy the same
    s1 = c.step('s*D==-(e x d2)', ops.eq(s * Dv, -ops.cross(e, d2)), using=[H_x, defs[3]])
    s2 = c.step('t*D==-(e x d1)', ops.eq(t * Dv, -ops.cross(e, d1)), using=[H_x, defs[3]])
    q1 = c.step('t1*D==-(e x d2)', ops.eq(t1 * Dv, -ops.cross(e, d2)), using=[dnz, defs[3]])
    q2 = c.step('t2*D==-(e x d1)', ops.eq(t2 * Dv, -ops.cross(e, d1)), using=[dnz, defs[3]])
    c.ensures('at-the-true-parameters', ops.And(ops.eq(t1, s), ops.eq(t2, t)), using=[s1, s2, q1, q2, dnz])


# three roots on a cubic: 4 of its 795 obligations stay `unknown` in z3, nlsat and cvc5 after 10 min each,
# so it is registered under no command (tier 'experimental'); one and two roots are in the quick tier
@contract('C12', 'bezier.bezier_by_line_intersections', params=[{'n': 4, 'm': 3, '_no_bounded': True}], level='relative', budget=120, tier='experimental')
def bezier_line_every_root_on_the_segment_is_reported_once_3_roots(c, n, m):
    return bezier_line_every_root_on_the_segment_is_reported_once(c, n, m)


@contract('C12', 'bezier.bezier_by_line_intersections',
          params=[{'n': n, 'm': m, '_no_bounded': True} for n in (3, 4) for m in range(1, min(n, 3))], level='relative', budget=120,
          note='relative to polyroots01 returning every simple root in [0,1] exactly once (C19 + numpy.roots exact)')
def bezier_line_every_root_on_the_segment_is_reported_once(c, n, m):
    P, seg, L, roots, res, rho, d, w, frames = _run_bezier_line(c, n, m)
    for i in range(m):
        for j in range(i + 1, m):
            c.assume(ops.ne(roots[i], roots[j]))            # simple roots, each listed once
    WF = c.witness_facts(w) if c.mode == 'sym' else []
    reals = [ops.re(rho * (p - L[0])) for p in P]        # the code's transformed_bezier_real
    for i, r in enumerate(roots):
        z, X, concl = frames[i]
        # the curve point at r lies on the carrier line; it is on the segment iff 0 <= <z,d> <= |d|^2
        lam_num = ops.dot(z, d)
        on_seg = ops.And(ops.le(0, lam_num), ops.le(lam_num, ops.norm2(d)))
        lam = c.step('root-%d:<z,d>==X*|d|' % i, ops.eq(lam_num, X * w), using=[concl])
        xv = bez.bern(reals, r)                           # the abscissa the code tests against [0, |d|]
        xeq = c.step('root-%d:abscissa==X' % i, ops.eq(xv, X))
        count = len([1 for (bt, lt) in res if bt is r])
        tests = (ops.le(0, xv), ops.le(xv, w))
        if c.mode == 'sym':
            k0, k1 = c.known(tests[0]), c.known(tests[1])
            if count == 1 and k0 is True and k1 is True:
                lits = [c.step('path:root-%d-accepted' % i, ops.And(*tests))]
            elif count == 0 and k0 is False:
                lits = [c.step('path:root-%d-rejected-below' % i, ops.Not(tests[0]))]
            elif count == 0 and k1 is False:
                lits = [c.step('path:root-%d-rejected-above' % i, ops.Not(tests[1]))]
            else:
                lits = None
            use = None if lits is None else lits + [xeq, lam, c._rl_wpos] + WF
        else:
            use = None
        c.ensures('root-%d-on-the-segment-is-reported-exactly-once' % i, ops.Implies(on_seg, count == 1), using=use)
        c.ensures('root-%d-off-the-segment-is-not-reported' % i, ops.Implies(ops.Not(on_seg), count == 0), using=use)


# =============================================================================== bounded stand-ins
# Bezier x Bezier (recursive subdivision with an area threshold) is a tolerance-driven heuristic:
# its distance claim is not a contract consequence (DESIGN.md section 3, C11).  Bounded, stated.

PAIRS = [(a, b) for a in (2, 3, 4) for b in (2, 3, 4)]


def _rand_seg(c, n, tag):
    P = [c.cplx('%s%d' % (tag, i)) for i in range(n)]
    return P, c.new(CLASSES[n], *P)


@contract('C11', 'path.Line.intersect', params=[{'n1': a, 'n2': b, '_bounded_only': True} for a, b in PAIRS])
def reported_pairs_are_real_sampled(c, n1, n2):
    """bounded stand-in: every reported pair is in range and the points coincide to 1e-5 of the
    curves' size; swapping the operands gives the transposed pairs"""
    P, a = _rand_seg(c, n1, 'p')
    Q, b = _rand_seg(c, n2, 'q')
    for R in (P, Q):
        c.assume(len(set(R)) == len(R))
    c.assume(P != Q)
    size = max(abs(z) for z in P + Q) + 1e-300
    try:
        r1 = list(a.intersect(b))
        r2 = list(b.intersect(a))
    except AssertionError:
        c.assume(False)
    for (t1, t2) in r1:
        c.ensures('parameters-in-[0,1]', 0 <= t1 <= 1 and 0 <= t2 <= 1)
        c.ensures('points-coincide-to-1e-5-of-the-size', abs(bez.bern(P, t1) - bez.bern(Q, t2)) <= 1e-5 * size)
    c.ensures('swap-gives-the-same-number', len(r1) == len(r2))
    for (t1, t2) in r1:
        c.ensures('swap-gives-the-transposed-pairs', any(abs(bez.bern(P, t1) - bez.bern(P, s1)) <= 1e-4 * size and
                                                         abs(bez.bern(Q, t2) - bez.bern(Q, s2)) <= 1e-4 * size for (s2, s1) in r2))


@contract('C12', 'path.Line.intersect', params=[{'n1': a, 'n2': b, '_bounded_only': True} for a, b in PAIRS])
def constructed_crossing_is_reported_sampled(c, n1, n2):
    """bounded stand-in: two curves built to pass through a common point at parameters (s,t)
    strictly inside, tangents at an angle >= 6 degrees: a pair within 1e-4 of (s,t) is reported,
    and reported once"""
    import math
    P, _ = _rand_seg(c, n1, 'p')
    Q, _ = _rand_seg(c, n2, 'q')
    s, t = 0.1 + 0.8 * abs(c.real('s')) % 0.8, 0.1 + 0.8 * abs(c.real('t')) % 0.8
    shift = bez.bern(P, s) - bez.bern(Q, t)
    Q = [z + shift for z in Q]
    d1, d2 = bez.dbern(P, s, 1), bez.dbern(Q, t, 1)
    c.assume(abs(d1) > 1e-3 * max(abs(z) for z in P) and abs(d2) > 1e-3 * max(abs(z) for z in Q) and abs(d1) > 0 and abs(d2) > 0)
    sin_a = abs(d1.real * d2.imag - d1.imag * d2.real) / (abs(d1) * abs(d2))
    c.assume(sin_a >= math.sin(math.radians(6)))
    scale_ratio = max(abs(z - P[0]) for z in P) / (max(abs(z - Q[0]) for z in Q) + 1e-300)
    c.assume(1e-2 < scale_ratio < 1e2)
    a, b = c.new(CLASSES[n1], *P), c.new(CLASSES[n2], *Q)
    res = list(a.intersect(b))
    near = [(u, v) for (u, v) in res if abs(u - s) <= 1e-4 and abs(v - t) <= 1e-4]
    c.ensures('crossing-is-reported', len(near) >= 1)
    c.ensures('crossing-is-reported-once', len(near) <= 1)


@contract('C12', 'path.Path.intersect',
          params=[{'k1': a, 'k2': b, 'where': w, 'near': n, '_no_bounded': True}
                  for a, b in (('LL', 'L'), ('LQ', 'C'), ('CLL', 'LL')) for w in ('two-segments', 'one-pair') for n in (False, True)],
          level='per-shape', budget=120)
def path_intersect_keeps_every_distinct_crossing(c, k1, k2, where, near):
    """completeness of the path-level bookkeeping, given the segment-level routine's answers
    (callee contract: an arbitrary list of parameter pairs in [0,1]^2 per segment pair):
    every pair of segments is intersected exactly once, and a reported crossing is dropped only
    when its point on `self` lies within tol of the point of an earlier reported crossing."""
    p1, s1, pts1 = mkpath(c, k1)
    p2, s2, pts2 = mkpath(c, k2, prefix='o')
    # two crossings: on two different segments of self, or both on the first segment pair
    want = {(0, 0): 1, (1, 0): 1} if where == 'two-segments' else {(0, 0): 2}
    table, order = {}, []

    def seg_intersect(ip, f, args, kwargs):
        a, b = args[0], args[1]
        i, j = [k for k, s in enumerate(s1) if s is a][0], [k for k, s in enumerate(s2) if s is b][0]
        order.append((i, j))
        if (i, j) not in table:
            table[(i, j)] = [(c.real('t1_%d%d_%d' % (i, j, k)), c.real('t2_%d%d_%d' % (i, j, k))) for k in range(want.get((i, j), 0))]
            for (u, v) in table[(i, j)]:
                c.assume(ops.And(ops.le(0, u), ops.le(u, 1), ops.le(0, v), ops.le(v, 1)))
        return list(table[(i, j)])
    for cls in ('Line', 'QuadraticBezier', 'CubicBezier'):
        c.ip.summaries['path.%s.intersect' % cls] = seg_intersect
    c.ip.summaries['path.Path.t2T'] = lambda ip, f, args, kwargs: ip.ctx.fresh_real('T')
    c.assume(ops.Not(c.py_eq(p1, p2)))
    # the points of the two crossings on self
    hits = [(i, j, k) for (i, j) in sorted(want) for k in range(want[(i, j)])]
    tol = c.const('1e-12')

    def hit_point(i, j, k):
        return bez.bern(pts1[i], c.real('t1_%d%d_%d' % (i, j, k)))
    zA, zB = hit_point(*hits[0]), hit_point(*hits[1])
    d2 = ops.norm2(zA - zB)
    if near:
        c.assume(ops.lt(d2, tol * tol))
    else:
        c.assume(ops.le(tol * tol, d2))
    res = list(c.items(c.callm(p1, 'intersect', p2)))
    c.ensures('every-pair-of-segments-is-intersected-exactly-once', order == [(i, j) for i in range(len(s1)) for j in range(len(s2))])
    kept = []
    for e in res:
        (T1, g1, t1), (T2, g2, t2) = [tuple(c.items(x)) for x in c.items(e)]
        i, j = [k for k, s in enumerate(s1) if s is g1][0], [k for k, s in enumerate(s2) if s is g2][0]
        kept.append([(i, j, k) for k, (u, v) in enumerate(table[(i, j)]) if t1 is u and t2 is v][0])
    if near:
        c.ensures('the-second-report-of-one-crossing-is-dropped-and-the-first-kept', kept == [hits[0]])
    else:
        c.ensures('two-crossings-at-distinct-points-are-both-reported-once-each', kept == hits)


@contract('C12', 'path.Path.intersect', params=[{'teeth': n, '_bounded_only': True} for n in (2, 3, 4)])
def zigzag_crossings_are_all_reported_sampled(c, teeth):
    """bounded stand-in for the path level: a zig-zag of congruent teeth cut by a line that
    crosses every flank strictly inside, transversally and far from the others (so the crossings
    sit at the SAME segment-local parameter on different segments): one report per flank, in both
    call orders"""
    import svgpathtools.path as sp
    w, h = 1.0 + abs(c.real('w')) % 9, 1.0 + abs(c.real('h')) % 9
    y = h * (0.15 + 0.7 * (abs(c.real('y')) % 1.0))
    org = c.cplx('origin')
    rot = complex(math.cos(c.real('a')), math.sin(c.real('a')))
    pts = []
    for k in range(teeth):
        pts += [complex(2 * k * w, 0), complex((2 * k + 1) * w, h)]
    pts.append(complex(2 * teeth * w, 0))
    tf = lambda z: org + rot * z
    zig = sp.Path(*[sp.Line(tf(pts[i]), tf(pts[i + 1])) for i in range(len(pts) - 1)])
    cut = sp.Path(sp.Line(tf(complex(-w, y)), tf(complex((2 * teeth + 1) * w, y))))
    n = 2 * teeth
    r1, r2 = zig.intersect(cut), cut.intersect(zig)
    c.ensures('one-report-per-flank:zigzag.intersect(line)', len(r1) == n)
    c.ensures('one-report-per-flank:line.intersect(zigzag)', len(r2) == n)
