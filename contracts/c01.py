"""C01 -- Path.d() output parses back to the same path, under every option.

The real serialiser runs on a symbolic path and produces a token string (literal template text
+ formatted numbers); the real parser then runs on that token string.  LEX (DESIGN.md 1.7) is
the only assumed step: formatting a finite double and tokenising it again gives back that
double.  Per shape: every value symbolic, 8 option combinations, four joint patterns."""
from pyvc.dsl import contract
from pyvc import ops
from contracts.c05 import KIND

OPTS = [{'useSandT': a, 'use_closed_attrib': b, 'rel': r} for a in (False, True) for b in (False, True) for r in (False, True)]
SHAPES = ['L', 'C', 'LC', 'CC', 'QQ', 'QL', 'LQC', 'AL', 'CA']
JOINTS = ['open', 'closed', 'broken', 'broken-closed']   # continuous open / continuous and closed / one discontinuity / discontinuous but ending where it starts
REVISIT_SHAPES = ['CCCC', 'LCCL', 'QQQQ', 'LQQC']   # closed paths that pass through their start point in the middle
LOOP_SHAPES = ['LCL', 'LQL', 'LCCL']                 # closed paths whose closing Line starts where an earlier curve (a loop) starts
SPIKE_SHAPES = ['CLLC', 'QLLQ', 'CLAC']               # open paths that leave a point after a curve and come back to it before the next curve


def _install_lex(c):
    """LEX: _tokenize_path on a string assembled from the serialiser's literal templates and
    formatted numbers yields the literal command letters and one token per formatted number
    whose float() is that number"""
    from pyvc import interp as I
    import re
    cre = re.compile(r"([MmZzLlHhVvCcSsQqTtAa])")

    fre = re.compile(r"[-+]?(?:[0-9]+\.?[0-9]*|\.[0-9]+)(?:[eE][-+]?[0-9]+)?")

    def tok(ip, f, args, kwargs):
        s = args[1]
        parts = s.parts if isinstance(s, I.TokStr) else [s]
        out = []
        for i, p in enumerate(parts):
            if isinstance(p, str):
                # literal template text is tokenised the way the real tokenizer does it; a digit,
                # sign, dot or exponent letter of the template must not touch a formatted number
                if i > 0 and not isinstance(parts[i - 1], str) and p[:1] not in ' ,\t\n' and p[:1] not in 'MmZzLlHhVvCcSsQqTtAa':
                    raise I.Unsupported("template text %r directly after a formatted number" % p[:3])
                if i + 1 < len(parts) and not isinstance(parts[i + 1], str) and p[-1:] not in ' ,\t\n' and p[-1:] not in 'MmZzLlHhVvCcSsQqTtAa':
                    raise I.Unsupported("template text %r directly before a formatted number" % p[-3:])
                for x in cre.split(p):
                    if x and x in 'MmZzLlHhVvCcSsQqTtAa':
                        out.append(x)
                    else:
                        out.extend(fre.findall(x))
            else:
                if i > 0 and not isinstance(parts[i - 1], str):
                    raise I.Unsupported("two formatted numbers without template text between them")
                out.append(p)
        return I.IterV(out)
    c.ip.summaries['path.Path._tokenize_path'] = tok


def _install_arc_stub(c):
    """Arc constructor contract (C04): stores its arguments (radius already admissible)"""
    def init(ip, f, args, kwargs):
        o = args[0]
        start, radius, rotation, large_arc, sweep, end = args[1:7]
        ip.ctx.oblige('Arc-constructor-precondition:start!=end', c._h(ops.ne(start, end)))
        o.attrs.update(start=start, radius=radius, rotation=rotation, large_arc=ip.truth(large_arc), sweep=ip.truth(sweep), end=end)
    c.ip.summaries['path.Arc.__init__'] = init


def build(c, kinds, joints):
    n = len(kinds)
    corner = [c.cplx('V%d' % i) for i in range(n + 1)]
    if joints in ('closed', 'revisit', 'broken-closed'):
        corner[n] = corner[0]
    if joints == 'revisit':
        corner[n // 2] = corner[0]
    if joints == 'spike':
        corner[n - 1] = corner[1]
    if joints == 'closed-loop':
        corner[n] = corner[0]
        for i in range(2, n):
            corner[i] = corner[1]
    segs = []
    for i, k in enumerate(kinds):
        s = corner[i]
        if joints in ('broken', 'broken-closed') and i == n - 1 and n > 1:
            s = c.cplx('W')
            c.assume(ops.ne(s, corner[i]))
        e = corner[i + 1]
        if not (n == 1 and joints == 'closed') and not (joints == 'closed-loop' and k != 'L'):
            c.assume(ops.ne(s, e))                   # no zero-length Line segments (quantifier of the property)
        if k == 'L':
            segs.append(c.new('path.Line', s, e))
        elif k == 'Q':
            segs.append(c.new('path.QuadraticBezier', s, c.cplx('q%d' % i), e))
        elif k == 'C':
            segs.append(c.new('path.CubicBezier', s, c.cplx('c%da' % i), c.cplx('c%db' % i), e))
        else:
            rx, ry = c.real('rx%d' % i), c.real('ry%d' % i)
            c.assume(ops.And(ops.lt(0, rx), ops.lt(0, ry)))
            segs.append(c.new('path.Arc', s, ops.cx(rx, ry), c.real('rot%d' % i), c.bool('fa%d' % i), c.bool('fs%d' % i), e))
    # distinct corners unless identified on purpose (keeps the joint pattern the one stated)
    for i in range(n + 1):
        for j in range(i + 1, n + 1):
            if corner[i] is not corner[j]:
                c.assume(ops.ne(corner[i], corner[j]))
    return c.new('path.Path', *segs), segs


FIELDS = {'Line': ('start', 'end'), 'QuadraticBezier': ('start', 'control', 'end'), 'CubicBezier': ('start', 'control1', 'control2', 'end'),
          'Arc': ('start', 'radius', 'rotation', 'end')}


def same_segment(c, a, b, eq):
    if a.cls is not b.cls:
        return False
    m = [eq(c.get(a, f), c.get(b, f)) for f in FIELDS[a.cls.name]]
    if a.cls.name == 'Arc':
        m += [ops.Iff(c.get(a, 'large_arc'), c.get(b, 'large_arc')), ops.Iff(c.get(a, 'sweep'), c.get(b, 'sweep'))]
    return ops.And(*m)


def _params(euf):
    ps = []
    for k in REVISIT_SHAPES:
        for o in OPTS:
            if euf and o['rel']:
                continue
            d = dict(o, kinds=k, joints='revisit', _no_bounded=True)
            if euf:
                d['_euf'] = True
            ps.append(d)
    for k in LOOP_SHAPES:
        for o in OPTS:
            if euf and o['rel']:
                continue
            d = dict(o, kinds=k, joints='closed-loop', _no_bounded=True)
            if euf:
                d['_euf'] = True
            ps.append(d)
    for k in SPIKE_SHAPES:
        for o in OPTS:
            if euf and o['rel']:
                continue
            d = dict(o, kinds=k, joints='spike', _no_bounded=True)
            if euf:
                d['_euf'] = True
            ps.append(d)
    for k in SHAPES:
        for j in JOINTS:
            if j in ('broken', 'closed', 'broken-closed') and len(k) == 1 and k != 'C':
                continue
            if j in ('broken', 'broken-closed') and len(k) == 1:
                continue
            for o in OPTS:
                if euf and o['rel']:
                    continue
                d = dict(o, kinds=k, joints=j, _no_bounded=True)
                if euf:
                    d['_euf'] = True
                ps.append(d)
    return ps


def _roundtrip(c, kinds, joints, useSandT, use_closed_attrib, rel, tag, eq):
    _install_arc_stub(c)
    path, segs = build(c, kinds, joints)
    _install_lex(c)
    d = c.callm(path, 'd', useSandT=useSandT, use_closed_attrib=use_closed_attrib, rel=rel)
    back = c.outcome(lambda: c.call('parser.parse_path', d))
    c.ensures('parses', back.kind == 'ok', exception=back.exc, message=back.msg)
    if back.kind != 'ok':
        return
    got = list(c.items(back.value))
    c.ensures('no-segment-dropped-or-added', len(got) == len(segs))
    if len(got) != len(segs):
        return
    for i, (a, b) in enumerate(zip(segs, got)):
        c.ensures('segment-%d-same-type-flags-and-defining-points%s' % (i, tag), same_segment(c, a, b, eq))


@contract('C01', 'path.Path.d', params=_params(False), level='per-shape',
          covers=('path.Path._parse_path', 'path.CubicBezier.is_smooth_from', 'path.QuadraticBezier.is_smooth_from'))
def d_roundtrip(c, kinds, joints, useSandT, use_closed_attrib, rel):
    _roundtrip(c, kinds, joints, useSandT, use_closed_attrib, rel, '', ops.eq)


@contract('C01', 'path.Path.d', params=_params(True), level='per-shape',
          covers=('path.Path._parse_path', 'path.CubicBezier.is_smooth_from', 'path.QuadraticBezier.is_smooth_from'),
          note="EUF back end: in absolute form the re-parsed path 'compares equal' (float ==)")
def d_roundtrip_absolute_is_bit_exact(c, kinds, joints, useSandT, use_closed_attrib, rel):
    _roundtrip(c, kinds, joints, useSandT, use_closed_attrib, rel, '(bit-exact)', c.exact_eq)


@contract('C01', 'path.Path.d', params=[{'_bounded_only': True}])
def d_roundtrip_on_paths_that_revisit_their_points_sampled(c):
    """bounded stand-in for the whole statement, aimed at what the per-shape contracts enumerate
    by hand: paths of 2..6 segments of all four kinds whose end points are drawn from a pool of
    FOUR points (so that subpaths, spikes, loops, closed and re-visited points all occur), under
    all 8 option combinations: parse_path(p.d(...)) has the same segments (exactly for absolute
    output, to 1e-9 for relative output); half-integer coordinates keep the arithmetic exact"""
    import random
    import svgpathtools.path as sp
    from svgpathtools.parser import parse_path
    rng = random.Random(int(abs(c.real('seed')) * 1e9) % (2 ** 31))
    pool = [complex(rng.randint(-8, 8) / 2.0, rng.randint(-8, 8) / 2.0) for _ in range(4)]
    c.assume(len(set(pool)) == 4)

    def pt():
        return complex(rng.randint(-12, 12) / 2.0, rng.randint(-12, 12) / 2.0)
    segs, cur = [], rng.choice(pool)
    for _ in range(rng.randint(2, 6)):
        start = cur if rng.random() < 0.8 else rng.choice(pool)
        kind = rng.choice('LLQCA')
        end = rng.choice(pool)
        if kind in 'LA' and end == start:
            end = rng.choice([p for p in pool if p != start])
        if kind == 'L':
            segs.append(sp.Line(start, end))
        elif kind == 'Q':
            segs.append(sp.QuadraticBezier(start, pt(), end))
        elif kind == 'C':
            c1 = pt()
            if segs and isinstance(segs[-1], sp.CubicBezier) and segs[-1].end == start and rng.random() < 0.5:
                c1 = 2 * start - segs[-1].control2            # a smooth joint: S may be written
            segs.append(sp.CubicBezier(start, c1, pt(), end))
        else:
            segs.append(sp.Arc(start, complex(rng.randint(1, 8) / 2.0 + 20, rng.randint(1, 8) / 2.0 + 20), rng.choice([0.0, 30.0, 90.0]),
                               rng.random() < 0.5, rng.random() < 0.5, end))
        cur = end
    path = sp.Path(*segs)
    bad = []
    for useSandT in (False, True):
        for use_closed_attrib in (False, True):
            for rel in (False, True):
                d = path.d(useSandT=useSandT, use_closed_attrib=use_closed_attrib, rel=rel)
                try:
                    back = parse_path(d)
                except Exception as e:
                    bad.append((d, 'raised %s' % type(e).__name__))
                    continue
                same = len(back) == len(path)
                if same:
                    for a, b in zip(path, back):
                        if type(a) is not type(b):
                            same = False
                            break
                        fa = [a.start, a.end] + ([a.control] if isinstance(a, sp.QuadraticBezier) else []) + \
                             ([a.control1, a.control2] if isinstance(a, sp.CubicBezier) else []) + \
                             ([a.radius, complex(a.rotation, 0), complex(bool(a.large_arc), bool(a.sweep))] if isinstance(a, sp.Arc) else [])
                        fb = [b.start, b.end] + ([b.control] if isinstance(b, sp.QuadraticBezier) else []) + \
                             ([b.control1, b.control2] if isinstance(b, sp.CubicBezier) else []) + \
                             ([b.radius, complex(b.rotation, 0), complex(bool(b.large_arc), bool(b.sweep))] if isinstance(b, sp.Arc) else [])
                        tol = 1e-9 if rel else 0.0
                        if any(abs(x - y) > tol for x, y in zip(fa, fb)):
                            same = False
                            break
                if not same:
                    bad.append((d, [str(s) for s in path]))
    c.bad_examples = bad[:2]
    c.ensures('every-option-combination-round-trips', not bad)
