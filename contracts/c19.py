"""C19 -- generic n-th order Bezier and polynomial helpers are exact and lose no roots.

Shape families: one instance per degree 0..8 (the range the property states); inside a shape
every value is symbolic.  Labelled per-shape: a proof for each listed degree, no claim beyond 8.
"""
import math
from pyvc.dsl import contract
from pyvc import ops
from specs import bez, poly

DEGS = [{'deg': d} for d in range(0, 9)]


@contract('C19', 'bezier.n_choose_k', params=[{'n': n} for n in range(0, 9)], level='per-shape')
def n_choose_k(c, n):
    for k in range(0, n + 1):
        c.ensures('C(%d,%d)' % (n, k), ops.eq(c.call('bezier.n_choose_k', n, k), math.comb(n, k)))


@contract('C19', 'bezier.bernstein', params=DEGS, level='per-shape')
def bernstein(c, deg):
    t = c.real('t')
    b = c.items(c.call('bezier.bernstein', deg, t))
    c.ensures('len', len(b) == deg + 1)
    for i in range(deg + 1):
        c.ensures('b_%d' % i, ops.eq(b[i], math.comb(deg, i) * ops.pw(1 - t, deg - i) * ops.pw(t, i)))


@contract('C19', 'bezier.bezier_point', params=DEGS, level='per-shape')
def bezier_point(c, deg):
    P = [c.cplx('P%d' % i) for i in range(deg + 1)]
    t = c.real('t')
    c.ensures('tuple-input', ops.eq(c.call('bezier.bezier_point', tuple(P), t), bez.bern(P, t)))
    c.ensures('list-input', ops.eq(c.call('bezier.bezier_point', list(P), t), bez.bern(P, t)))


@contract('C19', 'bezier.bezier_point', params=[{'deg': d} for d in (1, 2, 3)], level='per-shape')
def bezier_point_on_segment_objects(c, deg):
    from contracts.c03 import CLASSES
    P = [c.cplx('P%d' % i) for i in range(deg + 1)]
    seg = c.new(CLASSES[deg + 1], *P)
    t = c.real('t')
    c.ensures('segment-input', ops.eq(c.call('bezier.bezier_point', seg, t), bez.bern(P, t)))


@contract('C19', 'bezier.bezier2polynomial', params=DEGS, level='per-shape')
def bezier2polynomial_any_degree(c, deg):
    P = [c.cplx('P%d' % i) for i in range(deg + 1)]
    t = c.real('t')
    co = c.items(c.call('bezier.bezier2polynomial', tuple(P)))
    c.ensures('len', len(co) == deg + 1)
    c.ensures('numpy-order', ops.eq(bez.horner(co, t), bez.bern(P, t)))
    co2 = c.items(c.call('bezier.bezier2polynomial', list(P), numpy_ordering=False))
    c.ensures('standard-order-is-reverse', ops.eq(list(co2), list(co)[::-1]))
    p = c.call('bezier.bezier2polynomial', tuple(P), return_poly1d=True)
    c.ensures('poly1d', ops.And(c.is_poly1d(p), ops.eq(c.call(p, t), bez.bern(P, t))))


@contract('C19', 'bezier.split_bezier', params=DEGS, level='per-shape', budget=120)
def split_bezier(c, deg):
    P = [c.cplx('P%d' % i) for i in range(deg + 1)]
    t = c.real('t')
    u = c.real('u')
    left, right = c.items(c.call('bezier.split_bezier', tuple(P), t))
    left, right = list(c.items(left)), list(c.items(right))
    c.ensures('len', len(left) == deg + 1 and len(right) == deg + 1)
    c.ensures('left-starts-at-P0', ops.eq(left[0], P[0]))
    c.ensures('right-ends-at-Pn', ops.eq(right[-1], P[-1]))
    c.ensures('pieces-meet-at-point(t)', ops.And(ops.eq(left[-1], right[0]), ops.eq(left[-1], bez.bern(P, t))))
    # closed form of the de Casteljau points (this is the callee contract used at call sites)
    sl, sr = bez.split_points(P, t)
    c.ensures('left==closed-form', ops.eq(left, sl))
    c.ensures('right==closed-form', ops.eq(right, sr))
    c.ensures('left(u)==curve(u*t)', ops.eq(bez.bern(left, u), bez.bern(P, u * t)))
    c.ensures('right(u)==curve(t+u*(1-t))', ops.eq(bez.bern(right, u), bez.bern(P, t + u * (1 - t))))


@contract('C19', 'bezier.halve_bezier', params=DEGS, level='per-shape', budget=120)
def halve_bezier(c, deg):
    P = [c.cplx('P%d' % i) for i in range(deg + 1)]
    u = c.real('u')
    half = c.const('0.5')
    left, right = c.items(c.call('bezier.halve_bezier', tuple(P)))
    left, right = list(c.items(left)), list(c.items(right))
    c.ensures('len', len(left) == deg + 1 and len(right) == deg + 1)
    c.ensures('left(u)==curve(u/2)', ops.eq(bez.bern(left, u), bez.bern(P, u * half)))
    c.ensures('right(u)==curve(1/2+u/2)', ops.eq(bez.bern(right, u), bez.bern(P, half + u * half)))
    l2, r2 = c.items(c.call('bezier.split_bezier', tuple(P), half))
    c.ensures('agrees-with-split_bezier(p,0.5)', ops.And(ops.eq(list(left), list(c.items(l2))),
                                                           ops.eq(list(right), list(c.items(r2)))))


# ------------------------------------------------------------------------ roots

def _isolated(F, i):
    return ops.And(*[ops.And(ops.Not(poly.isclose(F[i], F[j])), ops.Not(poly.isclose(F[j], F[i])))
                     for j in range(len(F)) if j != i])


@contract('C19', 'polytools.polyroots', params=[{'m': m} for m in range(0, 9)], level='per-shape',
          note='relative to the assumed contract of numpy.roots: some list of roots in some order')
def polyroots_keeps_isolated_roots(c, m):
    """the de-duplication loop on an arbitrary list of m real roots (in arbitrary order)"""
    F = [c.real('r%d' % i) for i in range(m)]
    c.roots_model(lambda p: [ops.cx(x, 0) for x in F])
    c.merge_ifs(True)
    res = c.call('polytools.polyroots', [1] * (m + 1), realroots=True)
    res = list(res)
    c.ensures('result-elements-are-roots', c.sublist_of(res, F))
    for i in range(m):
        c.ensures('isolated-root-%d-returned-exactly-once' % i,
                  ops.Implies(_isolated(F, i), c.present(res, F, i)))


@contract('C19', 'polytools.polyroots01', params=[{'m': m} for m in range(0, 4)], level='per-shape',
          covers=('polytools.polyroots',),
          note='relative to the assumed contract of numpy.roots: some list of roots in some order')
def polyroots01_filters_and_keeps(c, m):
    """complex roots in arbitrary order through both filters and the de-duplication"""
    R = [c.cplx('z%d' % i) for i in range(m)]
    c.roots_model(lambda p: list(R))
    c.merge_ifs('if-only')
    res = list(c.call('polytools.polyroots01', [1] * (m + 1)))
    ok = [ops.And(poly.isclose(ops.im(z), 0), ops.le(0, ops.re(z)), ops.le(ops.re(z), 1)) for z in R]
    c.ensures('no-more-results-than-roots', len(res) <= m)
    # which roots passed the two filters on this path (already decided by the path condition)
    for x in res:
        c.ensures('every-result-is-a-real-root-in-[0,1]',
                  ops.Or(*[ops.And(ok[k], ops.eq(x, ops.re(R[k]))) for k in range(m)]) if m else False)
    for i in range(m):
        others = [ops.Implies(ok[j], ops.And(ops.Not(poly.isclose(ops.re(R[i]), ops.re(R[j]))),
                                            ops.Not(poly.isclose(ops.re(R[j]), ops.re(R[i])))))
                  for j in range(m) if j != i]
        count = sum([ops.If(ops.eq(x, ops.re(R[i])), 1, 0) for x in res]) if res else 0
        c.ensures('isolated-root-%d-in-[0,1]-returned-exactly-once' % i,
                  ops.Implies(ops.And(ok[i], *others), ops.eq(count, 1)))


# ------------------------------------------------------------------------ limits

def _rl_params(maxd):
    return [{'df': i, 'dg': j} for i in range(0, maxd + 1) for j in range(0, maxd + 1)]


@contract('C19', 'polytools.rational_limit', params=_rl_params(4), level='per-shape',
          note='that a_m/b_m is the limit of f/g at t0 (first non-vanishing Taylor coefficients) is a mathematical fact taken as given')
def rational_limit(c, df, dg):
    f = [c.cplx('f%d' % k) for k in range(df + 1)]       # highest power first
    g = [c.real('g%d' % k) for k in range(dg + 1)]
    t0 = c.real('t0')
    out = c.outcome(lambda: c.call('polytools.rational_limit', c.poly1d(f), c.poly1d(g), t0))
    a = poly.taylor(f, t0)
    b = poly.taylor(g, t0)
    n = dg + 1

    def a_at(k):
        return a[k] if k <= df else 0

    def first_nonzero_is(m):
        return ops.And(ops.ne(b[m], 0), *[ops.eq(b[k], 0) for k in range(m)])
    g_zero = ops.And(*[ops.eq(x, 0) for x in g])
    if out.kind == 'ok':
        c.ensures('returns-only-if-g-not-identically-zero', ops.Not(g_zero))
        for m in range(n):
            c.ensures('value-is-a_m/b_m[m=%d]' % m,
                      ops.Implies(first_nonzero_is(m),
                                  ops.And(ops.eq(out.value * b[m], a_at(m)), *[ops.eq(a_at(j), 0) for j in range(m)])))
    elif out.exc == 'ValueError':
        c.ensures('ValueError-only-at-a-pole',
                  ops.Or(*[ops.And(first_nonzero_is(m), ops.Or(*[ops.ne(a_at(j), 0) for j in range(m)]))
                           for m in range(n)]))
    else:
        c.ensures('AssertionError-only-for-g-identically-zero', ops.And(out.exc == 'AssertionError', g_zero))


@contract('C19', 'bezier.split_bezier', params=[{'deg': d, '_bounded_only': True} for d in range(1, 9)])
def split_and_halve_on_integer_control_points_sampled(c, deg):
    """bounded stand-in: the deductive split_bezier / halve_bezier contracts take the control
    points as reals, which is what they are mathematically - but a Python caller may pass ints,
    and an implementation that stores intermediate points in an array typed after its input
    truncates them.  Control points drawn as Python ints (real and Gaussian integers), t as a
    dyadic fraction, compared with de Casteljau in exact rational arithmetic."""
    from fractions import Fraction
    import svgpathtools.bezier as sb
    gauss = c.bool('gaussian')
    P = []
    for i in range(deg + 1):
        re = int(c.real('p%d.re' % i) * 20) % 41 - 20
        im = int(c.real('p%d.im' % i) * 20) % 41 - 20
        P.append(complex(re, im) if gauss else re)
    t = Fraction(1 + int(abs(c.real('t')) * 64) % 63, 64)

    def exact(z):
        return (Fraction(int(z.real)), Fraction(int(z.imag)))

    def casteljau(pts, t):
        left, right = [pts[0]], [pts[-1]]
        while len(pts) > 1:
            pts = [((1 - t) * a[0] + t * b[0], (1 - t) * a[1] + t * b[1]) for a, b in zip(pts, pts[1:])]
            left.append(pts[0])
            right.append(pts[-1])
        return left, right[::-1]

    def close(got, want):
        return len(got) == len(want) and all(abs(complex(g) - complex(float(w[0]), float(w[1]))) <= 1e-9 for g, w in zip(got, want))
    wl, wr = casteljau([exact(complex(z)) for z in P], t)
    gl, gr = sb.split_bezier(list(P), float(t))
    c.ensures('split_bezier(ints,t):left-piece', close(gl, wl))
    c.ensures('split_bezier(ints,t):right-piece', close(gr, wr))
    c.ensures('split_bezier(ints,t):the-argument-is-not-modified', list(P) == P)
    wl, wr = casteljau([exact(complex(z)) for z in P], Fraction(1, 2))
    gl, gr = sb.halve_bezier(list(P))
    c.ensures('halve_bezier(ints):left-piece', close(gl, wl))
    c.ensures('halve_bezier(ints):right-piece', close(gr, wr))
