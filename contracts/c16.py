"""C16 -- observations after any mutation history equal those of a freshly built object.

The data-structure argument (DESIGN.md section 3 / Appendix C): a representation invariant
Inv(path); the constructor establishes it; every mutator, started in an *arbitrary* state that
satisfies Inv, ends in a state that satisfies Inv and whose view is op(view); every query,
started in an arbitrary Inv state, returns what a freshly built Path of the same segments
returns.  By induction on the history this covers all histories, of any length.  States are
instantiated per shape (0..3 segments, cached / not cached)."""
from pyvc.dsl import contract
from pyvc import ops
from specs import bez
from contracts.c03 import CLASSES, NAMES, mkseg
from contracts.c05 import mkpath, seg_lengths, KIND

STATES = [{'kinds': k, 'cached': cch} for k in ['', 'L', 'QC', 'LCL'] for cch in (False, True)]


def inv_state(c, kinds, cached):
    """a Path in a state satisfying Inv: freshly constructed (caches empty) or with the length
    cache filled the way the class itself fills it"""
    path, segs, pts = mkpath(c, kinds)
    if cached and kinds:
        c.callm(path, '_calc_lengths')
    return path, segs, pts


def check_inv(c, path, expect, tag):
    """Inv(path) and view(path) == expect (a Python list of segment objects)"""
    cur = list(c.get(path, '_segments'))
    same = len(cur) == len(expect) and all(a is b for a, b in zip(cur, expect))
    c.ensures('%s:view-is-op(view)' % tag, same)
    if not same:
        return
    Lc = c.get(path, '_length')
    if Lc is not None:
        lens = [c.callm(s, 'length') for s in cur]
        tot = sum(lens[1:], lens[0]) if lens else 0
        F = list(c.items(c.get(path, '_lengths')))
        c.ensures('%s:cached-length-is-the-length-of-the-current-segments' % tag,
                  ops.And(ops.eq(Lc, tot), len(F) == len(cur), *[ops.eq(F[i] * Lc, lens[i]) for i in range(min(len(F), len(cur)))]))
    if cur:
        c.ensures('%s:_start/_end-are-those-of-the-first/last-segment' % tag,
                  ops.And(c.py_eq(c.get(path, '_start'), c.get(cur[0], 'start')), c.py_eq(c.get(path, '_end'), c.get(cur[-1], 'end'))))
    else:
        c.ensures('%s:_start/_end-are-None-for-an-empty-path' % tag, c.get(path, '_start') is None and c.get(path, '_end') is None)


def new_seg(c, tag, kind='L'):
    qual, n = KIND[kind]
    return c.new(qual, *[c.cplx('%s_P%d' % (tag, j)) for j in range(n)])


@contract('C16', 'path.Path.__init__', params=[{'kinds': k} for k in ['', 'L', 'QC', 'LCL']], level='per-shape')
def constructor_establishes_inv(c, kinds):
    path, segs, pts = mkpath(c, kinds)
    check_inv(c, path, segs, 'Path(*segs)')


def _ops_for(n):
    """(name, applies(n), run(c, path, segs, A, B) -> expected view)"""
    out = []
    for i in range(-n, n):
        out.append(('p[%d]=A' % i, lambda c, p, s, A, B, i=i: (c.setitem(p, i, A), s[:i % len(s)] + [A] + s[i % len(s) + 1:])[1]))
        out.append(('del p[%d]' % i, lambda c, p, s, A, B, i=i: (c.delitem(p, i), [x for k, x in enumerate(s) if k != i % len(s)])[1]))
    for i in range(-n - 1, n + 2):
        def ins(c, p, s, A, B, i=i):
            c.callm(p, 'insert', i, A)
            t = list(s)
            t.insert(i, A)
            return t
        out.append(('p.insert(%d,A)' % i, ins))
    for (a, b) in [(None, None), (0, 1), (1, None), (None, -1), (0, 0), (n, None)]:
        for repl, rn in (([], '[]'), (['A'], '[A]'), (['A', 'B'], '[A,B]')):
            def setslice(c, p, s, A, B, a=a, b=b, repl=repl):
                vals = [{'A': A, 'B': B}[x] for x in repl]
                c.setitem(p, slice(a, b), list(vals))
                t = list(s)
                t[a:b] = vals
                return t
            out.append(('p[%s:%s]=%s' % ('' if a is None else a, '' if b is None else b, rn), setslice))

        def delslice(c, p, s, A, B, a=a, b=b):
            c.delitem(p, slice(a, b))
            t = list(s)
            del t[a:b]
            return t
        out.append(('del p[%s:%s]' % ('' if a is None else a, '' if b is None else b), delslice))
    out.append(('p.append(A)', lambda c, p, s, A, B: (c.callm(p, 'append', A), s + [A])[1]))
    out.append(('p.extend([A,B])', lambda c, p, s, A, B: (c.callm(p, 'extend', [A, B]), s + [A, B])[1]))
    out.append(('p+=[A,B]', lambda c, p, s, A, B: (c.callm(p, '__iadd__', [A, B]), s + [A, B])[1]))
    out.append(('p.reverse()', lambda c, p, s, A, B: (c.callm(p, 'reverse'), s[::-1])[1]))
    out.append(('p.clear()', lambda c, p, s, A, B: (c.callm(p, 'clear'), [])[1]))
    if n:
        out.append(('p.pop()', lambda c, p, s, A, B: (c.callm(p, 'pop'), s[:-1])[1]))
        out.append(('p.pop(0)', lambda c, p, s, A, B: (c.callm(p, 'pop', 0), s[1:])[1]))
        out.append(('p.remove(p[-1])', lambda c, p, s, A, B: (c.callm(p, 'remove', s[-1]), None)[1]))
    return out


def _mutator_params():
    ps = []
    for st in STATES:
        n = len(st['kinds'])
        for k, (name, _) in enumerate(_ops_for(n)):
            ps.append(dict(st, op=k, opname=name))
    return ps


@contract('C16', 'path.Path.__setitem__', params=_mutator_params(), level='per-shape',
          covers=('path.Path.__delitem__', 'path.Path.insert'))
def mutator_preserves_inv(c, kinds, cached, op, opname):
    path, segs, pts = inv_state(c, kinds, cached)
    A, B = new_seg(c, 'A', 'L'), new_seg(c, 'B', 'C')
    name, run = _ops_for(len(segs))[op]
    out = c.outcome(lambda: run(c, path, list(segs), A, B))
    c.ensures('%s:does-not-raise' % opname, out.kind == 'ok')
    if out.kind != 'ok':
        return
    expect = out.value
    if expect is None:     # remove(x): first element equal to x
        cur = list(c.get(path, '_segments'))
        c.ensures('%s:removes-exactly-one-element' % opname, len(cur) == len(segs) - 1)
        expect = cur
    check_inv(c, path, expect, opname)


@contract('C16', 'path.Path.start', params=[dict(s, which=w) for s in STATES if s['kinds'] for w in ('start', 'end')], level='per-shape')
def assigning_start_or_end_preserves_inv(c, kinds, cached, which):
    path, segs, pts = inv_state(c, kinds, cached)
    z = c.cplx('z')
    c.set(path, which, z)
    tgt = segs[0] if which == 'start' else segs[-1]
    c.ensures('path.%s=z:moves-the-%s-of-the-%s-segment' % (which, which, 'first' if which == 'start' else 'last'), c.py_eq(c.get(tgt, which), z))
    c.ensures('path.%s=z:reads-back' % which, c.py_eq(c.get(path, which), z))
    check_inv(c, path, segs, 'path.%s=z' % which)


# ------------------------------------------------------------------------------- queries

QUERY_STATES = [s for s in STATES if s['kinds']]


@contract('C16', 'path.Path.length', params=[dict(s, _no_bounded=True) for s in QUERY_STATES], level='per-shape',
          covers=('path.Path._calc_lengths', 'path.Path.point', 'path.Path.T2t', 'path.Path.t2T', 'path.Path.bbox'))
def queries_agree_with_a_fresh_path(c, kinds, cached):
    """in any Inv state every query returns what Path(*current segments) returns (and leaves Inv)"""
    path, segs, pts = inv_state(c, kinds, cached)
    lens = seg_lengths(c, segs)
    c.assume(ops.lt(0, lens[0]))
    T = c.real('T')
    c.assume(ops.And(ops.le(0, T), ops.le(T, 1)))
    fresh = c.new('path.Path', *segs)
    c.ensures('length()', ops.eq(c.callm(path, 'length'), c.callm(fresh, 'length')))
    c.ensures('point(T)', ops.eq(c.callm(path, 'point', T), c.callm(fresh, 'point', T)))
    k1, t1 = c.items(c.callm(path, 'T2t', T))
    k2, t2 = c.items(c.callm(fresh, 'T2t', T))
    c.ensures('T2t(T)', k1 == k2 and ops.eq(t1, t2) is not False and ops.eq(t1, t2))
    c.ensures('t2T(k,t)', ops.eq(c.callm(path, 't2T', len(segs) - 1, T), c.callm(fresh, 't2T', len(segs) - 1, T)))
    c.ensures('start,end', ops.And(c.py_eq(c.get(path, 'start'), c.get(fresh, 'start')), c.py_eq(c.get(path, 'end'), c.get(fresh, 'end'))))
    c.ensures('len,getitem,iscontinuous', c.length(path) == c.length(fresh) and all(c.item(path, i) is c.item(fresh, i) for i in range(len(segs)))
              and ops.Iff(c.callm(path, 'iscontinuous'), c.callm(fresh, 'iscontinuous')))
    c.ensures('==', c.py_eq(path, fresh))
    check_inv(c, path, segs, 'after-queries')


# ------------------------------------------------------------------------------- segments

def _fresh_length_model(c):
    """what an uncached computation returns: an uninterpreted function of the control points at
    the time of the call, the interval and the requested tolerances (scipy: error only; fallback:
    error and min_depth)"""
    if c.mode != 'sym':
        def fresh_conc(P, scipy, err, md):
            return c.new('path.CubicBezier', *P).length(error=err, min_depth=md)
        return fresh_conc
    import z3
    from pyvc import sym, interp as I
    R = z3.RealSort()
    QUAD = z3.Function('QUAD', *([R] * 11 + [R]))
    SEGLEN = z3.Function('SEGLEN', *([R] * 12 + [R]))

    def pts_of(seg):
        out = []
        for nm in ('start', 'control1', 'control2', 'end'):
            z = seg.attrs[nm]
            out += [sym.zreal(sym.real_of(z)), sym.zreal(sym.imag_of(z))]
        return out

    def quad_model(ip, a, k):
        fn, t0, t1 = a[0], a[1], a[2]
        seg = fn.closure.vars['self']
        return (sym.Re(QUAD(*(pts_of(seg) + [sym.zreal(t0), sym.zreal(t1), sym.zreal(k['epsabs'])]))), 0)
    c.ip.quad_model = I.Builtin('quad(model)', quad_model)

    def seglen(ip, f, args, kwargs):
        seg, t0, t1, sp, ep, err, md, depth = args
        return sym.Re(SEGLEN(*(pts_of(seg) + [sym.zreal(t0), sym.zreal(t1), sym.zreal(err), sym.zreal(md)])))
    c.ip.summaries['path.segment_length'] = seglen

    def fresh(P, scipy, err, md):
        flat = []
        for z in P:
            flat += [sym.zreal(sym.real_of(z)), sym.zreal(sym.imag_of(z))]
        if scipy:
            return sym.Re(QUAD(*(flat + [sym.zreal(0), sym.zreal(1), sym.zreal(err)])))
        return sym.Re(SEGLEN(*(flat + [sym.zreal(0), sym.zreal(1), sym.zreal(err), sym.zreal(md)])))
    return fresh


@contract('C16', 'path.CubicBezier.length', params=[{'scipy': s} for s in (True, False)], budget=120)
def cubic_length_cache_answers_like_a_fresh_segment(c, scipy):
    """length() first requested with other error/min_depth arguments, then control points
    reassigned or not, then requested again: the answer is a fresh computation for the *current*
    control points with tolerances at least as strict as requested"""
    P, seg = mkseg(c, 4)
    c.set_global('path._quad_available', scipy)
    fresh = _fresh_length_model(c)
    e1, e2 = c.real('error1'), c.real('error2')
    d1, d2 = c.int('min_depth1'), c.int('min_depth2')
    if c.mode != 'sym':
        e1, e2, d1, d2 = max(abs(e1), 1e-13), max(abs(e2), 1e-13), min(abs(d1), 7), min(abs(d2), 7)
    first = c.callm(seg, 'length', error=e1, min_depth=d1)
    c.ensures('first-call-is-a-fresh-computation', ops.eq(first, fresh(P, scipy, e1, d1)))
    # optionally reassign a control point in between
    moved = c.bool('reassign')
    P2 = list(P)
    if c.decide(moved):
        P2[1] = c.cplx('Q1')
        c.set(seg, 'control1', P2[1])
    second = c.callm(seg, 'length', error=e2, min_depth=d2)
    ok = []
    for (e, d) in ((e2, d2), (e1, d1)):
        strict = ops.And(ops.le(e, e2), True if scipy else ops.le(d2, d))
        ok.append(ops.And(strict, ops.eq(second, fresh(P2, scipy, e, d))))
    c.ensures('second-call-answers-as-a-fresh-segment-would(at-least-as-strict)', ops.Or(*ok))


@contract('C16', 'path.CubicBezier.reversed', params=[{'_no_bounded': True}], covers=('path.CubicBezier.length',))
def cubic_reversed_does_not_leak_a_stale_length(c):
    P, seg = mkseg(c, 4)
    c.set_global('path._quad_available', True)
    fresh = _fresh_length_model(c)
    e = c.real('error')
    L0 = c.callm(seg, 'length', error=e)
    rev = c.callm(seg, 'reversed')
    # the original is reassigned after the copy was made
    Q1 = c.cplx('Q1')
    c.set(seg, 'control1', Q1)
    P2 = [P[0], Q1, P[2], P[3]]
    c.ensures('original-answers-for-its-new-control-points', ops.eq(c.callm(seg, 'length', error=e), fresh(P2, True, e, 5)))
    # arc length does not depend on orientation (assumed of the quadrature value)
    c.fact(ops.eq(fresh(P[::-1], True, e, 5), fresh(P, True, e, 5)))
    c.ensures('the-reversed-copy-still-answers-for-the-old-control-points', ops.eq(c.callm(rev, 'length', error=e), fresh(P[::-1], True, e, 5)))


@contract('C16', 'path.CubicBezier.reversed', params=[{'_no_bounded': True}], covers=('path.CubicBezier.length',))
def cubic_reversed_after_a_reassignment_answers_like_a_fresh_segment(c):
    """history: length() fills the cache, a control point is reassigned, THEN the copy is made"""
    P, seg = mkseg(c, 4)
    c.set_global('path._quad_available', True)
    fresh = _fresh_length_model(c)
    e = c.real('error')
    c.callm(seg, 'length', error=e)
    Q3 = c.cplx('Q3')
    c.set(seg, 'end', Q3)
    P2 = [P[0], P[1], P[2], Q3]
    rev = c.callm(seg, 'reversed')
    # arc length does not depend on orientation (assumed of the quadrature value)
    c.fact(ops.eq(fresh(P2[::-1], True, e, 5), fresh(P2, True, e, 5)))
    c.ensures('the-reversed-copy-answers-for-the-current-control-points', ops.eq(c.callm(rev, 'length', error=e), fresh(P2[::-1], True, e, 5)))
    c.ensures('and-so-does-the-original', ops.eq(c.callm(seg, 'length', error=e), fresh(P2, True, e, 5)))


for _n in (2, 3, 4):
    def _mk(n):
        def eq_implies_equal_hash(c):
            P = [c.cplx('P%d' % i) for i in range(n)]
            Q = [c.cplx('Q%d' % i) for i in range(n)]
            a, b = c.new(CLASSES[n], *P), c.new(CLASSES[n], *Q)
            e = c.py_eq(a, b)
            c.ensures('==-is-field-wise', ops.Iff(e, ops.eq(P, Q)))
            c.ensures('a==b=>hash(a)==hash(b)', ops.Implies(e, c.py_eq(c.hash(a), c.hash(b))))
        eq_implies_equal_hash.__name__ = 'eq_implies_equal_hash_%s' % NAMES[n]
        globals()[eq_implies_equal_hash.__name__] = eq_implies_equal_hash
        contract('C16', CLASSES[n] + '.__hash__', covers=(CLASSES[n] + '.__eq__',))(eq_implies_equal_hash)
    _mk(_n)


@contract('C16', 'path.Arc.__hash__', params=[{'_no_bounded': True}], covers=('path.Arc.__eq__',))
def eq_implies_equal_hash_Arc(c):
    """two Arcs in arbitrary stored states: == compares the six defining fields, and equal arcs
    hash alike (the flags may be given as bools or as 0/1: True == 1 and hash(True) == hash(1))"""
    from contracts.c04 import arc_state
    a, pa = arc_state(c, 'a_')
    b, pb = arc_state(c, 'b_')
    e = c.py_eq(a, b)
    same = ops.And(ops.eq(pa['start'], pb['start']), ops.eq(pa['end'], pb['end']), ops.eq(pa['rx'], pb['rx']), ops.eq(pa['ry'], pb['ry']),
                   ops.eq(pa['rot'], pb['rot']), ops.Iff(c.get(a, 'large_arc'), c.get(b, 'large_arc')), ops.Iff(c.get(a, 'sweep'), c.get(b, 'sweep')))
    c.ensures('==-is-field-wise', ops.Iff(e, same))
    c.ensures('a==b=>hash(a)==hash(b)', ops.Implies(e, c.py_eq(c.hash(a), c.hash(b))))
    c.ensures('!=-is-the-negation', ops.Iff(c.py_ne(a, b) if hasattr(c, 'py_ne') else ops.Not(e), ops.Not(e)))


@contract('C16', 'path.Path.__hash__', params=[{'kinds': k} for k in ['L', 'LQ']], level='per-shape')
def path_eq_implies_equal_hash(c, kinds):
    p1, s1, _ = mkpath(c, kinds, prefix='a')
    p2, s2, _ = mkpath(c, kinds, prefix='b')
    # two equal paths may have been built differently: parsed from a d-string ending in Z, or not
    c.set(p1, '_closed', c.bool('closed1'))
    c.set(p2, '_closed', c.bool('closed2'))
    e = c.py_eq(p1, p2)
    c.ensures('a==b=>hash(a)==hash(b)', ops.Implies(e, c.py_eq(c.hash(p1), c.hash(p2))))


@contract('C16', 'path.QuadraticBezier.length', params=[{'interval': 'whole'}], budget=120)
def quadratic_length_after_reassignment_answers_like_a_fresh_segment(c, interval):
    """length() requested, a control point reassigned, length() requested again: the same value a
    newly built QuadraticBezier of the current points returns; a reversed() copy taken before or
    after the reassignment answers for its own points.  (Where the closed form is undefined in
    real arithmetic -- collinear points -- nothing is claimed here: that is C06's matter.)"""
    P, seg = mkseg(c, 3)

    def L(s):
        # 'backwards' is length(t0=1, t1=0): the only call form that reads and fills the class's cache
        out = c.outcome(lambda: c.callm(s, 'length') if interval == 'whole' else c.callm(s, 'length', 1, 0))
        if out.kind != 'ok':
            c.cut()
        return out.value
    first = L(seg)
    rev_before = c.callm(seg, 'reversed')
    Q1 = c.cplx('Q1')
    c.set(seg, 'control', Q1)
    rev_after = c.callm(seg, 'reversed')
    fresh = c.new('path.QuadraticBezier', P[0], Q1, P[2])
    c.ensures('whole-length-after-reassignment', ops.eq(L(seg), L(fresh)))
    c.ensures('reversed-copy-taken-after-the-reassignment-answers-for-the-new-points',
              ops.eq(L(rev_after), L(c.new('path.QuadraticBezier', P[2], Q1, P[0]))))
    c.ensures('reversed-copy-taken-before-keeps-the-old-length', ops.eq(L(rev_before), L(c.new('path.QuadraticBezier', P[2], P[1], P[0]))))


@contract('C16', 'path.QuadraticBezier.reversed', params=[{'_bounded_only': True}])
def quadratic_cache_after_reassignment_and_reversal_sampled(c):
    """bounded stand-in: QuadraticBezier only reads and fills its length cache for the call form
    length(t0=1, t1=0); histories over that form - fill, reassign a control point, reverse, ask
    again - answer like fresh segments.  (Symbolically this needs the orientation symmetry of the
    closed form, an identity between sqrt/log terms the engine cannot prove, so it is sampled.)"""
    import svgpathtools.path as sp
    P = [c.cplx('P0'), c.cplx('P1'), c.cplx('P2')]
    z = c.cplx('z')
    c.assume(len(set(P)) == 3 and z not in P)
    a = P[0] - 2 * P[1] + P[2]
    c.assume(abs(a) > 1e-3 and abs(ops.cross(a, P[1] - P[0])) > 1e-3)          # generic position (closed form defined)
    which = int(abs(c.real('which')) * 10) % 3
    q = sp.QuadraticBezier(*P)
    first = q.length(1, 0)
    r0 = q.reversed()
    setattr(q, ('start', 'control', 'end')[which], z)
    cur = [q.start, q.control, q.end]
    a2 = cur[0] - 2 * cur[1] + cur[2]
    c.assume(abs(a2) > 1e-3 and abs(ops.cross(a2, cur[1] - cur[0])) > 1e-3)
    r1 = q.reversed()
    tol = 1e-9 * (1 + abs(first))

    def same(x, y):
        return abs(x - y) <= tol * (1 + abs(y))
    c.ensures('copy-reversed-after-the-reassignment-answers-for-the-new-points', same(r1.length(1, 0), sp.QuadraticBezier(*cur[::-1]).length(1, 0)))
    c.ensures('the-segment-itself-answers-for-the-new-points', same(q.length(1, 0), sp.QuadraticBezier(*cur).length(1, 0)))
    c.ensures('copy-reversed-before-keeps-the-old-points', same(r0.length(1, 0), sp.QuadraticBezier(*P[::-1]).length(1, 0)))
    c.ensures('copies-do-not-share-their-cache-with-the-original', r0._length_info is not q._length_info and r1._length_info is not q._length_info)


@contract('C16', 'path.Line.length')
def line_after_reassignment_answers_like_a_fresh_segment(c):
    P, seg = mkseg(c, 2)
    t = c.real('t')
    c.callm(seg, 'length')
    z = c.cplx('z')
    c.set(seg, 'end', z)
    fresh = c.new('path.Line', P[0], z)
    c.ensures('length', ops.eq(c.callm(seg, 'length'), c.callm(fresh, 'length')))
    c.ensures('point', ops.eq(c.callm(seg, 'point', t), c.callm(fresh, 'point', t)))
    c.ensures('==', c.py_eq(seg, fresh))


@contract('C16', 'path.Path.__hash__', params=[{'kinds': k, 'mutation': m} for k in ('L', 'LQ', 'CLQ')
                                                for m in ('end=z', 'start=z', 'p[0]=A', 'p[-1]=A', 'append(A)', 'del p[0]', 'segment.end=z')
                                                if not (k == 'L' and m == 'del p[0]')],
          level='per-shape')
def path_hash_after_a_mutation_is_that_of_a_fresh_path(c, kinds, mutation):
    """hash is an observation like any other: requested, then the path changed, then requested
    again, it is the hash of a newly built path of the current segments (same closed flag) -
    whatever the class remembers from the first request."""
    path, segs, pts = mkpath(c, kinds)
    c.hash(path)
    z = c.cplx('z')
    A = new_seg(c, 'A', 'Q')
    cur = list(segs)
    if mutation == 'end=z':
        c.set(path, 'end', z)
    elif mutation == 'start=z':
        c.set(path, 'start', z)
    elif mutation == 'p[0]=A':
        c.callm(path, '__setitem__', 0, A)
        cur[0] = A
    elif mutation == 'p[-1]=A':
        c.callm(path, '__setitem__', -1, A)
        cur[-1] = A
    elif mutation == 'append(A)':
        c.callm(path, 'append', A)
        cur.append(A)
    elif mutation == 'del p[0]':
        c.callm(path, '__delitem__', 0)
        cur = cur[1:]
    else:
        c.set(segs[-1], 'end', z)          # a segment changed behind the path's back
    fresh = c.new('path.Path', *cur)
    c.set(fresh, '_closed', c.get(path, '_closed'))
    c.ensures('equal-to-the-fresh-path', c.py_eq(path, fresh))
    c.ensures('hash(path)==hash(fresh-path-of-the-current-segments)', c.py_eq(c.hash(path), c.hash(fresh)))
