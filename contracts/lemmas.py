"""Ghost lemmas: universally quantified facts about real/complex numbers, each stated by one
Python function.  The function is used twice: on free variables in the lemma's own contract
(where it is *proved*, under every property that uses it), and on the caller's terms at a use
site (where the instance is assumed via c.use_lemma).  No lemma mentions /repo code."""
from pyvc.dsl import contract
from pyvc import ops


def triangle(a, b, m):
    """|b - a| <= |m - a| + |b - m|"""
    return ops.le(ops.absv(b - a), ops.absv(m - a) + ops.absv(b - m))


def line_frame(rho, d, w, z):
    """rho*d == w == |d| > 0 (rho rotates d onto the positive real axis) and rho*z real
       =>  z*w == Re(rho*z)*d  and  <z,d> == Re(rho*z)*w"""
    rz = rho * z
    return ops.Implies(ops.And(ops.eq(rho * d, ops.cx(w, 0)), ops.lt(0, w), ops.eq(w * w, ops.norm2(d)), ops.eq(ops.im(rz), 0)),
                       ops.And(ops.eq(z * w, ops.re(rz) * d), ops.eq(ops.dot(z, d), ops.re(rz) * w)))


LEMMAS = {'triangle': triangle, 'line_frame': line_frame}
USED_BY = {'triangle': ['C06'], 'line_frame': ['C11', 'C12']}
ARGS = {'triangle': 'ccc', 'line_frame': 'ccrc'}

for _name, _props in USED_BY.items():
    for _p in _props:
        def _mk(name, prop):
            def lemma(c):
                args = [c.cplx('x%d' % i) if k == 'c' else c.real('x%d' % i) for i, k in enumerate(ARGS[name])]
                c.ensures(name, LEMMAS[name](*args))
            lemma.__name__ = 'lemma_%s_%s' % (name, prop)
            globals()[lemma.__name__] = lemma
            contract(prop, 'lemma.' + name, params=[{'_no_bounded': True}], note='ghost lemma (no /repo code)')(lemma)
        _mk(_name, _p)
