"""Ghost lemmas: universally quantified facts about real/complex numbers, each stated by one
Python function.  The function is used twice: on free variables in the lemma's own contract
(where it is *proved*, under every property that uses it), and on the caller's terms at a use
site (where the instance is assumed via c.use_lemma).  No lemma mentions /repo code."""
from pyvc.dsl import contract
from pyvc import ops


def triangle(a, b, m):
    """|b - a| <= |m - a| + |b - m|"""
    return ops.le(ops.absv(b - a), ops.absv(m - a) + ops.absv(b - m))


LEMMAS = {'triangle': triangle}
USED_BY = {'triangle': ['C06']}

for _name, _props in USED_BY.items():
    for _p in _props:
        def _mk(name, prop):
            def lemma(c):
                a, b, m = c.cplx('a'), c.cplx('b'), c.cplx('m')
                c.ensures(name, LEMMAS[name](a, b, m))
            lemma.__name__ = 'lemma_%s_%s' % (name, prop)
            globals()[lemma.__name__] = lemma
            contract(prop, 'lemma.' + name, params=[{'_no_bounded': True}], note='ghost lemma (no /repo code)')(lemma)
        _mk(_name, _p)
