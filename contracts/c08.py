"""C08 -- bbox() contains the curve and every side of it is touched by the curve."""
from pyvc.dsl import contract
from pyvc import ops
from specs import bez
from contracts.c03 import CLASSES, NAMES, mkseg
from contracts.c05 import mkpath


@contract('C08', 'path.Line.bbox')
def line_bbox(c):
    P, seg = mkseg(c, 2)
    t = c.real('t')
    xmin, xmax, ymin, ymax = c.items(c.callm(seg, 'bbox'))
    pt = bez.bern(P, t)
    inside = ops.And(ops.le(0, t), ops.le(t, 1))
    c.ensures('contains-every-point', ops.Implies(inside, ops.And(ops.le(xmin, ops.re(pt)), ops.le(ops.re(pt), xmax),
                                                                 ops.le(ymin, ops.im(pt)), ops.le(ops.im(pt), ymax))))
    ends = [P[0], P[1]]
    for nm, v, part in (('xmin', xmin, ops.re), ('xmax', xmax, ops.re), ('ymin', ymin, ops.im), ('ymax', ymax, ops.im)):
        c.ensures('%s-is-attained-at-an-end-point' % nm, ops.Or(*[ops.eq(v, part(e)) for e in ends]))


def _spy_bezier_point(c):
    """callee contract of bezier_point (C19: == Bernstein sum) that also records the parameters
    the caller evaluates"""
    seen = []

    def bp(ip, f, args, kwargs):
        p, t = args
        seen.append(t)
        return bez.bern(list(ip.iterate(p)), t)
    c.ip.summaries['bezier.bezier_point'] = bp
    return seen


@contract('C08', 'bezier.bezier_real_minmax', params=[{'_no_bounded': True}], budget=120, level='relative',
          note='containment for all t follows from these clauses by the extreme-value lemma (a cubic on [0,1] is '
               'extremal at an end or at a zero of its derivative in (0,1)), which is assumed mathematics; the direct '
               'nonlinear proof of containment is the thorough-tier contract cubic_minmax_containment_direct')
def cubic_minmax_closed_form(c):
    """cubic coordinate polynomial of full degree: closed-form extrema"""
    a = [c.real('a%d' % i) for i in range(4)]
    rho = c.real('rho')
    denom = a[0] - 3 * a[1] + 3 * a[2] - a[3]
    c.assume(ops.ne(denom, 0))
    seen = _spy_bezier_point(c)
    mn, mx = c.items(c.call('bezier.bezier_real_minmax', list(a)))
    c.ensures('every-evaluated-parameter-is-in-[0,1]', ops.And(*[ops.And(ops.le(0, e), ops.le(e, 1)) for e in seen]))
    c.ensures('end-points-are-candidates', len(seen) >= 2 and ops.And(ops.eq(seen[0], 0), ops.eq(seen[1], 1)))
    for k, e in enumerate(seen[2:]):
        c.ensures('interior-candidate-%d-is-a-critical-point' % k, ops.eq(bez.dbern(a, e, 1), 0))
    c.ensures('every-critical-point-in-(0,1)-is-a-candidate',
              ops.Implies(ops.And(ops.lt(0, rho), ops.lt(rho, 1), ops.eq(bez.dbern(a, rho, 1), 0)),
                          ops.Or(*[ops.eq(rho, e) for e in seen[2:]]) if len(seen) > 2 else False))
    vals = [bez.bern(a, e) for e in seen]
    c.ensures('min-is-attained', ops.Or(*[ops.eq(mn, v) for v in vals]))
    c.ensures('max-is-attained', ops.Or(*[ops.eq(mx, v) for v in vals]))
    c.ensures('min<=value-at-every-candidate', ops.And(*[ops.le(mn, v) for v in vals]))
    c.ensures('max>=value-at-every-candidate', ops.And(*[ops.le(v, mx) for v in vals]))


@contract('C08', 'bezier.bezier_real_minmax', params=[{'_no_bounded': True}], budget=3000, tier='experimental')
def cubic_minmax_containment_direct(c):
    """containment for every t in [0,1], directly in nonlinear real arithmetic.  NOT part of any
    registered command (tier 'experimental'): z3/cvc5 do not decide it within two hours; the
    containment claim rests on the candidate-completeness clauses plus the assumed calculus fact"""
    a = [c.real('a%d' % i) for i in range(4)]
    t = c.real('t')
    denom = a[0] - 3 * a[1] + 3 * a[2] - a[3]
    c.assume(ops.ne(denom, 0))
    _spy_bezier_point(c)
    mn, mx = c.items(c.call('bezier.bezier_real_minmax', list(a)))
    B = bez.bern(a, t)
    inside = ops.And(ops.le(0, t), ops.le(t, 1))
    c.ensures('min<=B(t)-for-all-t-in-[0,1]', ops.Implies(inside, ops.le(mn, B)))
    c.ensures('B(t)<=max-for-all-t-in-[0,1]', ops.Implies(inside, ops.le(B, mx)))


@contract('C08', 'bezier.bezier_real_minmax', params=[{'m': m, '_no_bounded': True} for m in (0, 1)], level='relative', budget=240,
          note='degenerate cubic (coordinate polynomial of degree <= 2): relative to polyroots01 returning the vertex when it lies in [0,1]')
def cubic_minmax_degenerate(c, m):
    a = [c.real('a%d' % i) for i in range(4)]
    t = c.real('t')
    denom = a[0] - 3 * a[1] + 3 * a[2] - a[3]
    c.assume(ops.eq(denom, 0))
    roots = [c.real('root%d' % i) for i in range(m)]
    got = {}

    def polyroots01_contract(ip, f, args, kwargs):
        got['p'] = args[0]
        return list(roots)
    c.ip.summaries['polytools.polyroots01'] = polyroots01_contract
    seen = _spy_bezier_point(c)
    mn, mx = c.items(c.call('bezier.bezier_real_minmax', list(a)))
    # what the root finder was given is the derivative of the coordinate polynomial
    dco = list(c.items(got['p']))
    c.ensures('root-finder-gets-the-derivative', ops.eq(bez.horner(dco, t), bez.dbern(a, t, 1)))
    # assumed contract of polyroots01 (C19 + numpy.roots exact): roots lie in [0,1], are roots,
    # and the vertex of the (at most quadratic) polynomial is among them when it lies in [0,1]
    c2 = 3 * (a[0] - 2 * a[1] + a[2])
    c1 = 3 * (a[1] - a[0])
    for r in roots:
        c.assume(ops.And(ops.le(0, r), ops.le(r, 1), ops.eq(bez.dbern(a, r, 1), 0)))
    vertex_in = ops.And(ops.ne(c2, 0), ops.le(0, -c1 / (2 * c2)), ops.le(-c1 / (2 * c2), 1))
    if m == 0:
        c.assume(ops.Not(vertex_in))
    else:
        c.assume(ops.Implies(vertex_in, ops.eq(roots[0], -c1 / (2 * c2))))
    B = bez.bern(a, t)
    inside = ops.And(ops.le(0, t), ops.le(t, 1))
    c.ensures('min<=B(t)-for-all-t-in-[0,1]', ops.Implies(inside, ops.le(mn, B)))
    c.ensures('B(t)<=max-for-all-t-in-[0,1]', ops.Implies(inside, ops.le(B, mx)))
    c.ensures('min-is-attained', ops.Or(*[ops.eq(mn, bez.bern(a, e)) for e in seen]))
    c.ensures('max-is-attained', ops.Or(*[ops.eq(mx, bez.bern(a, e)) for e in seen]))


@contract('C08', 'bezier.bezier_bounding_box', params=[{'_no_bounded': True}])
def cubic_bbox_is_minmax_per_coordinate(c):
    P, seg = mkseg(c, 4)
    calls = []

    def minmax_contract(ip, f, args, kwargs):
        p = list(ip.iterate(args[0]))
        k = len(calls)
        lo, hi = c.real('lo%d' % k), c.real('hi%d' % k)
        calls.append((p, lo, hi))
        return (lo, hi)
    c.ip.summaries['bezier.bezier_real_minmax'] = minmax_contract
    xmin, xmax, ymin, ymax = c.items(c.callm(seg, 'bbox'))
    c.ensures('two-coordinate-problems', len(calls) == 2)
    c.ensures('x-range-from-the-real-parts', ops.And(ops.eq(calls[0][0], [ops.re(p) for p in P]), ops.eq(xmin, calls[0][1]), ops.eq(xmax, calls[0][2])))
    c.ensures('y-range-from-the-imaginary-parts', ops.And(ops.eq(calls[1][0], [ops.im(p) for p in P]), ops.eq(ymin, calls[1][1]), ops.eq(ymax, calls[1][2])))


@contract('C08', 'bezier.bezier_bounding_box', params=[{'mx': i, 'my': j, '_no_bounded': True} for i in (0, 1) for j in (0, 1)],
          level='relative', budget=240,
          note='quadratic: relative to polyroots returning the vertex of each coordinate when it lies in (0,1)')
def quadratic_bbox(c, mx, my):
    P, seg = mkseg(c, 3)
    t = c.real('t')
    rx = [c.real('rootx%d' % i) for i in range(mx)]
    ry = [c.real('rooty%d' % i) for i in range(my)]
    polys = []

    def polyroots_contract(ip, f, args, kwargs):
        polys.append(args[0])
        return list(rx) if len(polys) == 1 else list(ry)
    c.ip.summaries['polytools.polyroots'] = polyroots_contract
    xmin, xmax, ymin, ymax = c.items(c.callm(seg, 'bbox'))
    X = [ops.re(p) for p in P]
    Y = [ops.im(p) for p in P]
    if len(polys) != 2:
        # the code does not go through the root finder (any more): nothing to be relative to -
        # containment and attainment are then stated directly, for all control values
        inside = ops.And(ops.le(0, t), ops.le(t, 1))
        for co, lo, hi, nm in ((X, xmin, xmax, 'x'), (Y, ymin, ymax, 'y')):
            B = bez.bern(co, t)
            c.ensures('%smin<=%s(t)<=%smax(direct)' % (nm, nm, nm), ops.Implies(inside, ops.And(ops.le(lo, B), ops.le(B, hi))))
        return
    c.ensures('two-root-problems', len(polys) == 2)
    c.ensures('x-roots-of-dx/dt', ops.eq(c.call(polys[0], t), bez.dbern(X, t, 1)))
    c.ensures('y-roots-of-dy/dt', ops.eq(c.call(polys[1], t), bez.dbern(Y, t, 1)))
    for co, roots, lo, hi, nm in ((X, rx, xmin, xmax, 'x'), (Y, ry, ymin, ymax, 'y')):
        a2 = co[0] - 2 * co[1] + co[2]
        a1 = 2 * (co[1] - co[0])
        vertex = -a1 / (2 * a2)
        vin = ops.And(ops.ne(a2, 0), ops.lt(0, vertex), ops.lt(vertex, 1))
        for r in roots:
            c.assume(ops.And(ops.lt(0, r), ops.lt(r, 1), ops.eq(bez.dbern(co, r, 1), 0)))
        if roots:
            c.assume(ops.Implies(vin, ops.eq(roots[0], vertex)))
        else:
            c.assume(ops.Not(vin))
        B = bez.bern(co, t)
        inside = ops.And(ops.le(0, t), ops.le(t, 1))
        c.ensures('%smin<=%s(t)<=%smax' % (nm, nm, nm), ops.Implies(inside, ops.And(ops.le(lo, B), ops.le(B, hi))))
        cands = [0, 1] + roots
        c.ensures('%smin-attained' % nm, ops.Or(*[ops.eq(lo, bez.bern(co, e)) for e in cands]))
        c.ensures('%smax-attained' % nm, ops.Or(*[ops.eq(hi, bez.bern(co, e)) for e in cands]))


@contract('C08', 'path.Path.bbox', params=[{'kinds': k, '_no_bounded': True} for k in ['L', 'LQ', 'CL', 'QLC']], level='per-shape')
def path_bbox_is_union(c, kinds):
    path, segs, pts = mkpath(c, kinds)
    boxes = {}

    def bbox_contract(ip, f, args, kwargs):
        seg = args[0]
        i = [k for k, s in enumerate(segs) if s is seg][0]
        if i not in boxes:
            b = [c.real('%s%d' % (nm, i)) for nm in ('xmin', 'xmax', 'ymin', 'ymax')]
            c.assume(ops.And(ops.le(b[0], b[1]), ops.le(b[2], b[3])))
            boxes[i] = tuple(b)
        return boxes[i]
    for cls in ('Line', 'QuadraticBezier', 'CubicBezier'):
        c.ip.summaries['path.%s.bbox' % cls] = bbox_contract
    xmin, xmax, ymin, ymax = c.items(c.callm(path, 'bbox'))
    n = len(segs)
    c.ensures('every-segment-box-consulted', sorted(boxes) == list(range(n)))
    if sorted(boxes) != list(range(n)):
        return
    for i in range(n):
        b = boxes[i]
        c.ensures('contains-box-of-segment-%d' % i, ops.And(ops.le(xmin, b[0]), ops.le(b[1], xmax), ops.le(ymin, b[2]), ops.le(b[3], ymax)))
    for nm, v, k in (('xmin', xmin, 0), ('xmax', xmax, 1), ('ymin', ymin, 2), ('ymax', ymax, 3)):
        c.ensures('%s-is-a-side-of-some-segment-box' % nm, ops.Or(*[ops.eq(v, boxes[i][k]) for i in range(n)]))


@contract('C08', 'path.Path.bbox', params=[{'kinds': k, '_bounded_only': True} for k in ['L', 'Q', 'C', 'LQ', 'QLC', 'CC']])
def bbox_against_dense_sampling(c, kinds):
    """bounded companion only: containment and tightness against 400 sampled parameters"""
    path, segs, pts = mkpath(c, kinds)
    xmin, xmax, ymin, ymax = c.callm(path, 'bbox')
    xs, ys = [], []
    for P in pts:
        for k in range(401):
            z = bez.bern(P, k / 400.0)
            xs.append(z.real)
            ys.append(z.imag)
    sc = max(1.0, max(abs(v) for v in xs + ys))
    c.ensures('contains-samples', min(xs) >= xmin - 1e-9 * sc and max(xs) <= xmax + 1e-9 * sc and min(ys) >= ymin - 1e-9 * sc and max(ys) <= ymax + 1e-9 * sc)
    c.ensures('tight', abs(min(xs) - xmin) <= 1e-4 * sc and abs(max(xs) - xmax) <= 1e-4 * sc and abs(min(ys) - ymin) <= 1e-4 * sc and abs(max(ys) - ymax) <= 1e-4 * sc)


@contract('C08', 'path.CubicBezier.bbox', params=[{'how': h, '_bounded_only': True} for h in ('elevated-quadratic', 'elevated-line', 'tiny-cubic-term')])
def cubic_bbox_when_the_cubic_term_vanishes_up_to_rounding_sampled(c, how):
    """bounded stand-in for the quantifier's "cubics whose coordinate polynomial degenerates to
    lower degree": in floats the t^3 coefficient of a degree-elevated quadratic (what exporters
    write for Q commands) is ~1e-16, not 0 - the closed-form branch must not lose the extremum"""
    import svgpathtools.path as sp
    q0, q1, q2 = c.cplx('q0'), c.cplx('q1'), c.cplx('q2')
    if how == 'elevated-line':
        q1 = (q0 + q2) / 2 + (q2 - q0) * (abs(c.real('s')) % 1.0 - 0.5)
    P = [q0, q0 + 2 / 3.0 * (q1 - q0), q2 + 2 / 3.0 * (q1 - q2), q2]
    if how == 'tiny-cubic-term':
        eps = 10 ** (-16 + 8 * (abs(c.real('e')) % 1.0))
        P[3] = P[3] + eps * complex(1, -1) * max(1.0, abs(q2))
    seg = sp.CubicBezier(*P)
    xmin, xmax, ymin, ymax = seg.bbox()
    zs = [bez.bern(P, k / 1000.0) for k in range(1001)]
    xs, ys = [z.real for z in zs], [z.imag for z in zs]
    sc = max(1.0, max(abs(z) for z in P))
    c.ensures('contains-samples', min(xs) >= xmin - 1e-9 * sc and max(xs) <= xmax + 1e-9 * sc and min(ys) >= ymin - 1e-9 * sc and max(ys) <= ymax + 1e-9 * sc)
    c.ensures('tight', abs(min(xs) - xmin) <= 1e-4 * sc and abs(max(xs) - xmax) <= 1e-4 * sc and abs(min(ys) - ymin) <= 1e-4 * sc and abs(max(ys) - ymax) <= 1e-4 * sc)
