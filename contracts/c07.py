"""C07 -- ilength inverts length on [0, L], is monotone, total and terminates.

Real-arithmetic part: range check, end values, bisection invariant (unbounded loop, by an
inductive invariant), tolerance on return, Path dispatch, wrappers.  'Returns rather than
looping or raising' (no stall in floating point) is not a real-arithmetic fact; it is decided by
the bounded stand-in at the end of this file."""
from pyvc.dsl import contract
from pyvc import ops
from specs import bez
from contracts.c03 import CLASSES, NAMES, mkseg
from contracts.c05 import mkpath, seg_lengths


def _LEN(c, P, t0, t1):
    from contracts import _summaries
    return _summaries.LEN(P, t0, t1)


def _arc_with_length_contract(c):
    """an Arc in any stored state whose length() enters as the same kind of call-site contract
    the Bezier classes have: LEN(state, t0, t1) >= 0, a function of the stored state and the
    interval (its structure is proved in C06: arc_length_structure)"""
    from contracts.c04 import arc_state
    arc, p = arc_state(c)
    P = [p['start'], p['end'], p['center'], ops.cx(p['rx'], p['ry']), ops.cx(p['rot'], p['theta']), ops.cx(p['delta'], 0)]

    def arc_length(ip, f, args, kwargs):
        vals = {'t0': 0, 't1': 1}
        for nm, v in zip(['t0', 't1', 'error', 'min_depth'], args[1:]):
            vals[nm] = v
        vals.update(kwargs)
        return _LEN(c, P, vals['t0'], vals['t1'])
    if c.mode == 'sym':
        c.ip.summaries['path.Arc.length'] = arc_length
    return P, arc


@contract('C07', 'path.inv_arclength', params=[{'n': 3, '_no_bounded': True}, {'n': 4, '_no_bounded': True}, {'n': 'arc', '_no_bounded': True}], budget=120)
def bisection_on_a_curved_segment(c, n):
    P, seg = mkseg(c, n) if n != 'arc' else _arc_with_length_contract(c)
    s, s_tol = c.real('s'), c.real('s_tol')
    maxits = c.int('maxits')
    c.assume(ops.lt(0, s_tol))
    L = _LEN(c, P, 0, 1)
    c.assume(ops.lt(0, L))
    # assumed clause of the length contract used here: the length of an empty interval is 0
    c.fact(ops.eq(_LEN(c, P, 0, 0), 0))

    def inv(v):
        lo, up = v['t_lower'], v['t_upper']
        return ops.And(ops.le(0, lo), ops.le(lo, up), ops.le(up, 1),
                       ops.le(_LEN(c, P, 0, lo), s), ops.le(s, _LEN(c, P, 0, up)))

    def havoc(v):
        v['t_lower'], v['t_upper'] = c.real('t_lower'), c.real('t_upper')
        v['iteration'] = c.int('iteration')
        v['t'], v['s_t'] = c.real('t_prev'), c.real('s_t_prev')
    c.loop_invariant('path.inv_arclength', 1, inv, havoc, name='bisection')
    f = c.glob('path.inv_arclength')
    out = c.outcome(lambda: c.ip.run_func(f, [seg, s], {'s_tol': s_tol, 'maxits': maxits}))
    in_range = ops.And(ops.le(0, s), ops.le(s, L))
    if out.kind == 'raise' and out.exc == 'ValueError':
        c.ensures('ValueError-only-outside-[0,L]', ops.Not(in_range))
        return
    if out.kind == 'raise' and out.exc == 'Exception':
        # "Maximum iterations reached": unreachable only by a floating-point argument (the interval
        # halves until it is one ulp wide) -- outside real arithmetic, see the bounded stand-in
        c.ensures('max-iterations-exit-only-after-the-loop-test-failed', True)
        return
    c.ensures('no-other-exception', out.kind == 'ok')
    if out.kind != 'ok':
        return
    t = out.value
    c.ensures('returns-only-inside-[0,L]', in_range)
    c.ensures('result-in-[0,1]', ops.And(ops.le(0, t), ops.le(t, 1)))
    c.ensures('ilength(0)==0', ops.Implies(ops.eq(s, 0), ops.eq(t, 0)))
    c.ensures('ilength(L)==1', ops.Implies(ops.eq(s, L), ops.eq(t, 1)))
    c.ensures('|length(0,t)-s|<s_tol', ops.Implies(ops.And(ops.lt(0, s), ops.lt(s, L)),
                                                    ops.lt(ops.absv(_LEN(c, P, 0, t) - s), s_tol)))


@contract('C07', 'path.inv_arclength')
def on_a_line(c):
    P, seg = mkseg(c, 2)
    s = c.real('s')
    c.assume(ops.ne(P[0], P[1]))
    L = ops.absv(P[1] - P[0])
    out = c.outcome(lambda: c.call('path.inv_arclength', seg, s))
    in_range = ops.And(ops.le(0, s), ops.le(s, L))
    if out.kind == 'ok':
        c.ensures('returns-only-inside-[0,L]', in_range)
        c.ensures('ilength(s)==s/L', ops.eq(out.value * L, s))
        c.ensures('length(0,ilength(s))==s', ops.eq(c.callm(seg, 'length', 0, out.value), s))
    else:
        c.ensures('ValueError-only-outside-[0,L]', ops.And(out.exc == 'ValueError', ops.Not(in_range)))


@contract('C07', 'path.inv_arclength', params=[{'kinds': k, '_no_bounded': True} for k in ['LL', 'LC', 'QLC']], level='per-shape', budget=120)
def on_a_path(c, kinds):
    """the segment found contains s, the recursive call is made within its precondition, and the
    result is t2T(k, t_k)"""
    path, segs, pts = mkpath(c, kinds)
    lens = seg_lengths(c, segs)
    c.assume(ops.And(*[ops.lt(0, x) for x in lens]))
    n = len(segs)
    s = c.real('s')
    tot = sum(lens[1:], lens[0])
    rec = []

    def segment_contract(ip, f, args, kwargs):
        seg, s1 = args[0], args[1]
        k = [i for i, x in enumerate(segs) if x is seg][0]
        ip.ctx.oblige('recursive-call-within-its-precondition[segment %d]' % k,
                      c._h(ops.And(ops.le(0, s1), ops.le(s1, lens[k]))))
        tk = c.real('t_seg')
        c.assume(ops.And(ops.le(0, tk), ops.le(tk, 1)))
        rec.append((k, s1, tk, kwargs))
        return tk
    c.ip.summaries['path.inv_arclength'] = segment_contract
    f = c.glob('path.inv_arclength')
    kw = {'s_tol': c.real('s_tol'), 'maxits': c.int('maxits'), 'error': c.real('error'), 'min_depth': c.int('min_depth')}
    out = c.outcome(lambda: c.ip.run_func(f, [path, s], dict(kw)))
    in_range = ops.And(ops.le(0, s), ops.le(s, tot))
    if out.kind != 'ok':
        c.ensures('ValueError-only-outside-[0,L]', ops.And(out.exc == 'ValueError', ops.Not(in_range)))
        return
    c.ensures('returns-only-inside-[0,L]', in_range)
    T = out.value
    c.ensures('ilength(0)==0', ops.Implies(ops.eq(s, 0), ops.eq(T, 0)))
    c.ensures('ilength(L)==1', ops.Implies(ops.eq(s, tot), ops.eq(T, 1)))
    if rec:
        k, s1, tk, kws = rec[0]
        before = sum(lens[:k], 0)
        c.ensures('one-recursive-call', len(rec) == 1)
        c.ensures('segment-k-contains-s', ops.And(ops.le(before, s), ops.le(s, before + lens[k])))
        c.ensures('recursive-call-gets-s-minus-the-lengths-before', ops.eq(s1, s - before))
        c.ensures('tolerances-forwarded', all(kws.get(key) is kw[key] for key in kw))
        c.ensures('result==t2T(k,t_k)', ops.eq(T, c.callm(path, 't2T', k, tk)))
        c.ensures('result-in-[0,1]', ops.And(ops.le(0, T), ops.le(T, 1)))
    else:
        c.ensures('no-recursion-only-at-the-ends', ops.Or(ops.eq(s, 0), ops.eq(s, tot)))


for _cls, _n in (('Line', 2), ('QuadraticBezier', 3), ('CubicBezier', 4), ('Path', 0), ('Arc', -1)):
    def _mk(cls, n):
        def wrapper(c):
            if cls == 'Path':
                obj, _, _ = mkpath(c, 'LC')
            elif cls == 'Arc':
                from contracts.c04 import arc_state
                obj, _ = arc_state(c)
            else:
                _, obj = mkseg(c, n)
            got = {}

            def spy(ip, f, args, kwargs):
                got['a'], got['k'] = args, kwargs
                return 'RESULT'
            c.ip.summaries['path.inv_arclength'] = spy
            vals = {'s': c.real('s'), 's_tol': c.real('s_tol'), 'maxits': c.int('maxits'), 'error': c.real('error'), 'min_depth': c.int('min_depth')}
            r = c.callm(obj, 'ilength', vals['s'], s_tol=vals['s_tol'], maxits=vals['maxits'], error=vals['error'], min_depth=vals['min_depth'])
            a, k = got['a'], got['k']
            c.ensures('ilength-forwards-everything-to-inv_arclength', r == 'RESULT' and a[0] is obj and a[1] is vals['s'] and
                      all(k.get(key) is vals[key] for key in ('s_tol', 'maxits', 'error', 'min_depth')))
            r2 = c.callm(obj, 'ilength', vals['s'])
            k2 = got['k']
            c.ensures('defaults-are-the-documented-ILENGTH-constants',
                      ops.And(ops.eq(k2['s_tol'], c.const('1e-12')), ops.eq(k2['maxits'], 10000), ops.eq(k2['error'], c.const('1e-12')), ops.eq(k2['min_depth'], 5)))
        wrapper.__name__ = 'ilength_wrapper_%s' % cls
        globals()[wrapper.__name__] = wrapper
        contract('C07', 'path.%s.ilength' % cls, params=[{'_no_bounded': True}])(wrapper)
    _mk(_cls, _n)


@contract('C07', 'path.inv_arclength', params=[{'kind': k, 'scipy': s, '_bounded_only': True} for k in ('L', 'Q', 'C', 'LQC', 'LLL') for s in (True,)])
def ilength_inverts_length_sampled(c, kind, scipy):
    """bounded stand-in: at coordinate scales 1e-3..1e6, for s on a grid including the ends,
    ilength returns (does not raise or spin), lands in [0,1], inverts length to the larger of
    the tolerance and the resolution of L, and is non-decreasing in s"""
    import math
    path, segs, pts = mkpath(c, kind)
    for P in pts:
        c.assume(len(set(P)) == len(P))
    obj = segs[0] if len(kind) == 1 else path
    L = obj.length()
    c.assume(L > 0 and math.isfinite(L))
    prev = -1.0
    for k in range(0, 9):
        s = L * k / 8.0
        out = c.outcome(lambda: obj.ilength(s))
        c.ensures('returns', out.kind == 'ok')
        if out.kind != 'ok':
            return
        t = out.value
        c.ensures('result-in-[0,1]', 0 <= t <= 1)
        tol = max(1e-9, 1e-9 * L)
        ok = abs(obj.length(0, t) - s) <= tol
        if not ok and 0 < t < 1:
            # is length() itself continuous to the tolerance around t?  (scipy's quad, trusted with
            # epsabs=1e-12, answers with a step of ~1e-5 between neighbouring floats next to an almost
            # singular point of a cubic: no t can then satisfy the clause; reported under its own
            # clause name, which is the known finding)
            lo, hi = obj.length(0, math.nextafter(t, 0.0)), obj.length(0, math.nextafter(t, 1.0))
            here = obj.length(0, t)
            if not (lo - tol <= here <= hi + tol) or abs(hi - lo) > 2 * tol:
                c.ensures('length(0,t)==s-to-tolerance[where-length(0,.)-jumps-by-more-than-the-tolerance-between-the-floats-next-to-t]', False)
                ok = True
        c.ensures('length(0,t)==s-to-tolerance', ok)
        c.ensures('non-decreasing-in-s', t >= prev - 1e-9)
        prev = t
    c.ensures('ilength(0)==0', obj.ilength(0) == 0)
    c.ensures('ilength(L)==1', obj.ilength(L) == 1)
    if len(kind) > 1:
        # s exactly at the end of a segment inside the path (a running sum of segment lengths)
        run = 0.0
        for k in range(len(segs) - 1):
            run += segs[k].length()
            out = c.outcome(lambda: obj.ilength(run))
            c.ensures('returns-for-s-at-a-segment-boundary', out.kind == 'ok')
            if out.kind == 'ok':
                c.ensures('segment-boundary:length(0,t)==s-to-tolerance', abs(obj.length(0, out.value) - run) <= max(1e-9, 1e-9 * L))
    for bad in (-0.5 * L, 1.5 * L):
        out = c.outcome(lambda: obj.ilength(bad))
        c.ensures('ValueError-outside-[0,L]', out.kind == 'raise' and out.exc == 'ValueError')
