"""C20 -- smoothed_path removes kinks without moving the path."""
import math
from pyvc.dsl import contract
from pyvc import ops
from specs import bez
from contracts.c03 import mkseg


def _unit(c, z):
    """z/|z| as the engine builds it (sqrt witness), for comparison with unit tangents"""
    return z / ops.absv(z)


@contract('C20', 'smoothing.smoothed_joint', budget=240)
def line_line_joint(c):
    """elbow between two lines: endpoints on the two lines at distance a from the corner,
    tangents continuous at both ends, everything within a of the corner, a within its bounds"""
    p, q, r = c.cplx('p'), c.cplx('q'), c.cplx('r')
    mj, tg = c.real('maxjointsize'), c.real('tightness')
    c.assume(ops.And(ops.ne(p, q), ops.ne(q, r), ops.lt(0, mj), ops.lt(0, tg), ops.lt(tg, 2)))
    s0, s1 = c.new('path.Line', p, q), c.new('path.Line', q, r)
    t0, elbows, t1 = c.items(c.call('smoothing.smoothed_joint', s0, s1, mj, tg))
    elbows = list(c.items(elbows))
    c.ensures('one-cubic-elbow', len(elbows) == 1 and c.isinstance(elbows[0], 'path.CubicBezier'))
    e = elbows[0]
    E = [c.get(e, n) for n in ('start', 'control1', 'control2', 'end')]
    l0, l1 = ops.absv(q - p), ops.absv(r - q)
    v, w = (q - p) / l0, (r - q) / l1
    # a = |elbow.start - q| measured along seg0
    a = ops.re((q - E[0]) * ops.conj(v))
    c.ensures('elbow-starts-on-seg0-at-distance-a-before-the-corner', ops.And(ops.eq(E[0], q - a * v), ops.lt(0, a)))
    c.ensures('elbow-ends-on-seg1-at-distance-a-after-the-corner', ops.eq(E[3], q + a * w))
    c.ensures('a<=maxjointsize/2', ops.le(a, mj / 2))
    c.ensures('a<=shorter-segment/20', ops.And(ops.le(20 * a, l0), ops.le(20 * a, l1)))
    c.ensures('trimmed-neighbours-join-the-elbow-exactly',
              ops.And(c.isinstance(t0, 'path.Line'), c.isinstance(t1, 'path.Line'), ops.eq(c.get(t0, 'start'), p), ops.eq(c.get(t0, 'end'), E[0]),
                      ops.eq(c.get(t1, 'start'), E[3]), ops.eq(c.get(t1, 'end'), r)))
    # tangent continuity: B'(0) = 3(P1-P0) is a positive multiple of v, B'(1) = 3(P3-P2) of w
    k0 = ops.re((E[1] - E[0]) * ops.conj(v))
    k1 = ops.re((E[3] - E[2]) * ops.conj(w))
    c.ensures('elbow-leaves-in-the-direction-of-seg0', ops.And(ops.eq(E[1] - E[0], k0 * v), ops.lt(0, k0)))
    c.ensures('elbow-arrives-in-the-direction-of-seg1', ops.And(ops.eq(E[3] - E[2], k1 * w), ops.lt(0, k1)))
    # all four control points within a of the corner => (convex hull) the whole elbow is
    for i, z in enumerate(E):
        c.ensures('control-point-%d-within-a-of-the-corner' % i, ops.le(ops.norm2(z - q), a * a))


@contract('C20', 'smoothing.smoothed_path', params=[{'_no_bounded': True}])
def single_segment_path_is_returned_unchanged(c):
    P, seg = mkseg(c, 4)
    path = c.new('path.Path', seg)
    c.ensures('same-object', c.call('smoothing.smoothed_path', path) is path)


def _rand_path(c, kinds, closed):
    pts = [c.cplx('v%d' % i) for i in range(len(kinds) + 1)]
    if closed:
        pts[-1] = pts[0]
    segs = []
    for i, k in enumerate(kinds):
        a, b = pts[i], pts[i + 1]
        c.assume(abs(a - b) > 1e-3 * max(abs(a), abs(b), 1e-9))
        if k == 'L':
            segs.append(c.new('path.Line', a, b))
        else:
            c1 = a + (b - a) * 0.3 + c.cplx('w%da' % i) * 0.2
            c2 = a + (b - a) * 0.7 + c.cplx('w%db' % i) * 0.2
            segs.append(c.new('path.CubicBezier', a, c1, c2, b))
    return c.new('path.Path', *segs), segs


@contract('C20', 'smoothing.smoothed_path',
          params=[{'kinds': k, 'closed': cl, '_bounded_only': True} for k in ('LL', 'LLL', 'LC', 'CL', 'CC', 'LCLC', 'LLLL') for cl in (False, True) if not (cl and len(k) < 3)])
def smoothed_path_sampled(c, kinds, closed):
    """bounded stand-in for the whole statement: continuous, kink-free (closing joint included),
    same ends / still closed, within maxjointsize of the original, smooth joints untouched"""
    from svgpathtools.smoothing import smoothed_path, kinks
    path, segs = _rand_path(c, kinds, closed)
    n = len(segs)
    if not closed:
        # an 'open' sample whose ends happen to coincide is a closed path: not this instance
        c.assume(abs(segs[0].start - segs[-1].end) > 1e-6 * max(abs(s.start - s.end) for s in segs))
    # corner angles strictly inside (0,180): exclude (near-)smooth and (near-)reversal joints
    rng = range(n) if closed else range(n - 1)
    for i in rng:
        u, v = segs[i].unit_tangent(1), segs[(i + 1) % n].unit_tangent(0)
        dot = u.real * v.real + u.imag * v.imag
        c.assume(-0.97 < dot < 0.97)
    size = max(abs(s.start - s.end) for s in segs)
    mj = size * (0.01 + abs(c.real('mj')) % 3)
    tg = 0.05 + abs(c.real('tg')) % 1.9
    out = c.outcome(lambda: smoothed_path(path, maxjointsize=mj, tightness=tg))
    c.ensures('returns', out.kind == 'ok')
    if out.kind != 'ok':
        return
    sp = out.value
    c.ensures('continuous', sp.iscontinuous())
    c.ensures('no-kinks', kinks(sp) == [])
    if closed:
        c.ensures('closed-stays-closed', sp.isclosed())
    else:
        c.ensures('same-start-and-end', sp.start == path.start and sp.end == path.end)
    orig = [s.point(k / 200.0) for s in segs for k in range(201)]
    worst = 0.0
    for s in sp:
        for k in range(0, 21):
            z = s.point(k / 20.0)
            worst = max(worst, min(abs(z - o) for o in orig))
    c.ensures('within-maxjointsize-of-the-original', worst <= mj + 1e-2 * size)


@contract('C20', 'smoothing.smoothed_path', params=[{'kinds': k, 'near': nr, '_bounded_only': True} for k in ('LL', 'LC', 'CL') for nr in ('straight', 'reversal')])
def smoothed_path_slight_and_sharp_corners_sampled(c, kinds, near):
    """bounded stand-in for the ends of the angle range (0,180): corners of 0.01..8 degrees and
    of 172..179.95 degrees (not reversals) are smoothed too - the result has no kinks"""
    from svgpathtools.smoothing import smoothed_path
    import svgpathtools.path as sp
    import cmath
    a = c.cplx('a')
    L0, L1 = 1 + abs(c.real('l0')) % 20, 1 + abs(c.real('l1')) % 20
    d0 = cmath.exp(1j * c.real('phi'))
    dev = 10 ** (-2 + 2.9 * (abs(c.real('u')) % 1.0))            # 0.01 .. 8 degrees
    turn = dev if near == 'straight' else 180 - dev
    turn = turn if c.bool('left') else -turn
    d1 = d0 * cmath.exp(1j * math.radians(turn))
    b = a + L0 * d0
    e = b + L1 * d1

    def seg(k, p, q, din, dout):
        if k == 'L':
            return sp.Line(p, q)
        ln = abs(q - p)
        # a cubic that leaves p in direction din and arrives at q in direction dout
        return sp.CubicBezier(p, p + din * ln / 3, q - dout * ln / 3, q)
    w = cmath.exp(1j * 0.4)
    s0 = seg(kinds[0], a, b, d0 * w if kinds[0] == 'C' else d0, d0)
    s1 = seg(kinds[1], b, e, d1, d1 / w if kinds[1] == 'C' else d1)
    path = sp.Path(s0, s1)
    mj = min(L0, L1) * (0.05 + abs(c.real('mj')) % 1.0)
    out = c.outcome(lambda: smoothed_path(path, maxjointsize=mj))
    c.ensures('returns', out.kind == 'ok')
    if out.kind != 'ok':
        return
    res = out.value
    c.ensures('continuous', res.iscontinuous())
    worst = 0.0
    for i in range(len(res) - 1):
        u, v = res[i].unit_tangent(1), res[i + 1].unit_tangent(0)
        worst = max(worst, abs(u - v))
    c.ensures('no-kinks(unit-tangents-match-to-1e-4)', worst <= 1e-4)
    c.ensures('same-start-and-end', res.start == path.start and res.end == path.end)


@contract('C20', 'smoothing.smoothed_joint', params=[{'order': o, '_no_bounded': True} for o in ('line-cubic', 'cubic-line')], budget=240, tier='thorough')
def line_cubic_joint(c, order):
    """a line meeting a cubic (either order; the second is done by the code through reversal)"""
    p, q = c.cplx('p'), c.cplx('q')
    k1, k2, e = c.cplx('k1'), c.cplx('k2'), c.cplx('e')
    mj, tg = c.real('maxjointsize'), c.real('tightness')
    c.assume(ops.And(ops.ne(p, q), ops.ne(k1, q), ops.lt(0, mj), ops.lt(0, tg), ops.lt(tg, 2)))
    if order == 'line-cubic':
        line, cub = c.new('path.Line', p, q), c.new('path.CubicBezier', q, k1, k2, e)
        c.assume(ops.lt(0, c.callm(cub, 'length')))
        t0, elbows, t1 = c.items(c.call('smoothing.smoothed_joint', line, cub, mj, tg))
        elbow = list(c.items(elbows))[0]
        E = [c.get(elbow, n) for n in ('start', 'control1', 'control2', 'end')]
        c.ensures('cubic-returned-unchanged', t1 is cub)
        c.ensures('trimmed-line-joins-the-elbow', ops.And(c.isinstance(t0, 'path.Line'), ops.eq(c.get(t0, 'start'), p), ops.eq(c.get(t0, 'end'), E[0])))
        into, outof = E, None
    else:
        cub, line = c.new('path.CubicBezier', e, k2, k1, q), c.new('path.Line', q, p)
        c.assume(ops.lt(0, c.callm(cub, 'length')))
        # length is orientation independent (assumed of the quadrature value): the code measures the reversed cubic
        from contracts import _summaries
        if c.mode == 'sym':
            c.fact(ops.eq(_summaries.LEN([q, k1, k2, e], 0, 1), _summaries.LEN([e, k2, k1, q], 0, 1)))
        t0, elbows, t1 = c.items(c.call('smoothing.smoothed_joint', cub, line, mj, tg))
        elbow = list(c.items(elbows))[0]
        R = [c.get(elbow, n) for n in ('start', 'control1', 'control2', 'end')]
        c.ensures('cubic-returned-unchanged', t0 is cub)
        c.ensures('trimmed-line-joins-the-elbow', ops.And(c.isinstance(t1, 'path.Line'), ops.eq(c.get(t1, 'end'), p), ops.eq(c.get(t1, 'start'), R[3])))
        E = R[::-1]        # describe the elbow from the line's side, as in the other order
    c.ensures('one-cubic-elbow', len(list(c.items(elbows))) == 1 and c.isinstance(elbow, 'path.CubicBezier'))
    l0 = ops.absv(q - p)
    v = (q - p) / l0
    d1 = k1 - q
    w = d1 / ops.absv(d1)                       # direction in which the cubic leaves the corner
    a = ops.re((q - E[0]) * ops.conj(v))
    c.ensures('elbow-touches-the-line-at-distance-a-from-the-corner', ops.And(ops.eq(E[0], q - a * v), ops.lt(0, a)))
    c.ensures('elbow-touches-the-cubic-at-the-corner', ops.eq(E[3], q))
    c.ensures('a<=maxjointsize/2', ops.le(a, mj / 2))
    c.ensures('a<=line-length/20', ops.le(20 * a, l0))
    m0 = ops.re((E[1] - E[0]) * ops.conj(v))
    m1 = ops.re((E[3] - E[2]) * ops.conj(w))
    c.ensures('tangent-continuous-at-the-line', ops.And(ops.eq(E[1] - E[0], m0 * v), ops.lt(0, m0)))
    c.ensures('tangent-continuous-at-the-cubic', ops.And(ops.eq(E[3] - E[2], m1 * w), ops.lt(0, m1)))
    for i, z in enumerate(E):
        c.ensures('control-point-%d-within-4a/3-of-the-corner' % i, ops.le(9 * ops.norm2(z - q), 16 * a * a))


# ------------------------------------------------------------------ the list surgery of smoothed_path
# smoothed_joint enters through its call-site contract (proved above for line/line, thorough tier
# for line/cubic): it returns (trimmed seg0, [elbow], trimmed seg1) with
#   trimmed seg0 starts where seg0 started, ends where the elbow starts,
#   trimmed seg1 starts where the elbow ends, ends where seg1 ended.
# The joint classification (already smooth / cusp / to be smoothed) enters as an arbitrary
# pattern: unit_tangent returns abstract values and isclose answers by the pattern.

JOINT_PATTERNS = [('open', 'LL', 'k'), ('open', 'LLL', 'kk'), ('open', 'LLL', 'sk'), ('open', 'LLL', 'kc'), ('closed', 'LLL', 'kkk'),
                  ('closed', 'LLL', 'skk'), ('closed', 'LLL', 'kks'), ('closed', 'LLLL', 'kskk'), ('closed', 'LLL', 'ckk'), ('closed', 'LL', 'kk')]


@contract('C20', 'smoothing.smoothed_path',
          params=[{'closed': cl == 'closed', 'n': len(k), 'pattern': p, '_no_bounded': True} for cl, k, p in JOINT_PATTERNS], level='per-shape')
def smoothed_path_list_surgery(c, closed, n, pattern):
    """pattern[i] classifies the joint after segment i (for a closed path the last one is the
    closing joint): k = kink to be smoothed, s = already smooth, c = cusp (left alone)"""
    from contracts.c09 import _polyline
    from pyvc import sym
    path, segs, V = _polyline(c, n, closed)
    if not closed:
        c.assume(ops.ne(V[0], V[n]))
    joints = n if closed else n - 1
    assert len(pattern) == joints
    tang = {}       # id(segment object) -> (tangent at 0, tangent at 1)
    made = []       # segments created by the smoothed_joint contract
    calls = []

    def tangents(seg):
        if id(seg) not in tang:
            k = len(tang)
            tang[id(seg)] = (seg, c.cplx('ut0_%d' % k), c.cplx('ut1_%d' % k))
        return tang[id(seg)]

    def unit_tangent(ip, f, args, kwargs):
        seg, t = args[0], args[1]
        _, u0, u1 = tangents(seg)
        return u0 if t == 0 else u1
    for cls in ('Line', 'CubicBezier'):
        c.ip.summaries['path.%s.unit_tangent' % cls] = unit_tangent

    # which original joint a pair of segments belongs to: through the end point of seg0
    def joint_of(seg0):
        e = c.get(seg0, 'end')
        for i in range(n):
            if ops.known_equal(e, V[i + 1]) if hasattr(ops, 'known_equal') else (sym.eq(e, V[i + 1]) is True):
                return i
        raise AssertionError("joint not identified")

    state = {}

    def isclose(ip, f, args, kwargs):
        a, b = args[0], args[1]
        # find the segments the two tangents belong to
        for key, (seg, u0, u1) in tang.items():
            if a is u1:
                state['joint'] = joint_of(seg)
                return pattern[state['joint']] == 's'
        # second question of the same joint: isclose(-ut0, ut1)
        for key, (seg, u0, u1) in tang.items():
            if 'joint' in state and ops.known_zero(a + u1) if hasattr(ops, 'known_zero') else ('joint' in state and sym.eq(a, sym.neg(u1)) is True):
                return pattern[state['joint']] == 'c'
        from pyvc.explore import Unsupported
        raise Unsupported("smoothed_path classifies a joint by a test this contract does not recognise (expected isclose(ut0, ut1) and isclose(-ut0, ut1))")
    c.ip.summaries['misctools.isclose'] = isclose

    def smoothed_joint(ip, f, args, kwargs):
        seg0, seg1 = args[0], args[1]
        k = len(calls)
        A, B = c.cplx('A%d' % k), c.cplx('B%d' % k)
        ns0 = c.new('path.Line', c.get(seg0, 'start'), A)
        elbow = c.new('path.CubicBezier', A, c.cplx('K%d' % k), c.cplx('M%d' % k), B)
        ns1 = c.new('path.Line', B, c.get(seg1, 'end'))
        calls.append((seg0, seg1, ns0, elbow, ns1))
        made.extend([ns0, elbow, ns1])
        return (ns0, [elbow], ns1)
    c.ip.summaries['smoothing.smoothed_joint'] = smoothed_joint
    out = c.call('smoothing.smoothed_path', path, ignore_unfixable_kinks=True)
    res = list(c.items(out))
    nk = sum(1 for ch in pattern if ch == 'k')
    c.ensures('one-elbow-per-smoothed-joint', len(res) == n + nk and len(calls) == nk)
    for i in range(len(res) - 1):
        c.ensures('continuous-at-joint-%d' % i, ops.eq(c.get(res[i], 'end'), c.get(res[i + 1], 'start')))
    if closed:
        c.ensures('stays-closed', ops.eq(c.get(res[-1], 'end'), c.get(res[0], 'start')))
    else:
        c.ensures('same-end-points', ops.And(ops.eq(c.get(res[0], 'start'), V[0]), ops.eq(c.get(res[-1], 'end'), V[n])))
    # every smoothed joint got its elbow between the trimmed neighbours, in path order
    for (seg0, seg1, ns0, elbow, ns1) in calls:
        i = [k for k, x in enumerate(res) if x is elbow]
        c.ensures('elbow-is-in-the-result-once', len(i) == 1)
    # segments next to no smoothed joint are the original objects
    for i in range(n):
        before = pattern[(i - 1) % joints] if (closed or i > 0) else 's'
        after = pattern[i] if i < joints else 's'
        if before != 'k' and after != 'k':
            c.ensures('segment-%d-untouched' % i, any(x is segs[i] for x in res))


# ------------------------------------------------- the reductions inside smoothed_joint
# cubic/line is computed by reversing both segments and calling smoothed_joint again (line/cubic);
# cubic/cubic by trimming both cubics and three nested calls.  Proved here: what the nested calls
# receive (the SAME maxjointsize and tightness) and how the pieces are put back together; the
# nested calls themselves enter through the contract of smoothed_joint (pieces that join).

def _nested_joint_spy(c, calls):
    depth = {'n': 0}

    def hook(ip, f, args, kwargs):
        depth['n'] += 1
        try:
            if depth['n'] == 1:
                return ip.run_func(f, list(args), kwargs)
            k = len(calls)
            seg0, seg1 = args[0], args[1]
            A, B = c.cplx('A%d' % k), c.cplx('B%d' % k)
            ns0 = c.new('path.Line', c.get(seg0, 'start'), A) if seg0.cls.name == 'Line' else seg0
            elbow = c.new('path.CubicBezier', A if seg0.cls.name == 'Line' else c.get(seg0, 'end'), c.cplx('K%d' % k), c.cplx('M%d' % k),
                          B if seg1.cls.name == 'Line' else c.get(seg1, 'start'))
            ns1 = c.new('path.Line', B, c.get(seg1, 'end')) if seg1.cls.name == 'Line' else seg1
            calls.append({'args': list(args), 'kwargs': dict(kwargs), 'out': (ns0, elbow, ns1)})
            return (ns0, [elbow], ns1)
        finally:
            depth['n'] -= 1
    c.ip.summaries['smoothing.smoothed_joint'] = hook


def _joint_args(call):
    a, k = call['args'], call['kwargs']
    mj = a[2] if len(a) > 2 else k.get('maxjointsize', 3)
    tg = a[3] if len(a) > 3 else k.get('tightness', Fraction(199, 100))
    return a[0], a[1], mj, tg


from fractions import Fraction  # noqa: E402


@contract('C20', 'smoothing.smoothed_joint', params=[{'_no_bounded': True}])
def cubic_line_joint_is_the_reversed_line_cubic_joint(c):
    P, cub = mkseg(c, 4)
    e = c.cplx('line_end')
    c.assume(ops.ne(P[3], e))
    line = c.new('path.Line', P[3], e)
    mj, tg = c.real('maxjointsize'), c.real('tightness')
    c.assume(ops.And(ops.lt(0, mj), ops.lt(0, tg), ops.lt(tg, 2)))
    for cls in ('Line', 'CubicBezier'):
        c.ip.summaries['path.%s.unit_tangent' % cls] = lambda ip, f, a, k: c.cplx('ut')
    c.ip.summaries['path.CubicBezier.length'] = lambda ip, f, a, k: c.real('Lc')
    c.ip.summaries['path.Line.length'] = lambda ip, f, a, k: c.real('Ll')
    calls = []
    _nested_joint_spy(c, calls)
    s0, elbows, s1 = c.items(c.call('smoothing.smoothed_joint', cub, line, mj, tg))
    elbows = list(c.items(elbows))
    c.ensures('one-nested-call', len(calls) == 1)
    if len(calls) != 1:
        return
    a0, a1, nmj, ntg = _joint_args(calls[0])
    t = c.real('t')
    c.ensures('nested-call-gets-the-reversed-line-then-the-reversed-cubic',
              ops.And(c.isinstance(a0, 'path.Line'), c.isinstance(a1, 'path.CubicBezier'),
                      ops.eq(c.get(a0, 'start'), e), ops.eq(c.get(a0, 'end'), P[3]),
                      ops.eq(bez.bern([c.get(a1, f) for f in ('start', 'control1', 'control2', 'end')], t), bez.bern(P, 1 - t))))
    c.ensures('nested-call-gets-the-same-maxjointsize-and-tightness', ops.And(ops.eq(nmj, mj), ops.eq(ntg, tg)))
    rline_trimmed, relbow, rcub = calls[0]['out']
    c.ensures('the-cubic-is-returned-untrimmed', s0 is cub)
    c.ensures('one-elbow:the-nested-elbow-reversed', len(elbows) == 1 and
              ops.eq(bez.bern([c.get(elbows[0], f) for f in ('start', 'control1', 'control2', 'end')], t),
                     bez.bern([c.get(relbow, f) for f in ('start', 'control1', 'control2', 'end')], 1 - t)))
    c.ensures('the-trimmed-line-is-the-nested-trimmed-line-reversed',
              ops.And(ops.eq(c.get(s1, 'start'), c.get(rline_trimmed, 'end')), ops.eq(c.get(s1, 'end'), c.get(rline_trimmed, 'start'))))


@contract('C20', 'smoothing.smoothed_joint', params=[{'_no_bounded': True}])
def cubic_cubic_joint_is_three_nested_joints_over_trimmed_cubics(c):
    P, c0 = mkseg(c, 4)
    Q = [P[3]] + [c.cplx('Q%d' % i) for i in range(1, 4)]
    c1 = c.new('path.CubicBezier', *Q)
    mj, tg = c.real('maxjointsize'), c.real('tightness')
    c.assume(ops.And(ops.lt(0, mj), ops.lt(0, tg), ops.lt(tg, 2)))
    for cls in ('Line', 'CubicBezier'):
        c.ip.summaries['path.%s.unit_tangent' % cls] = lambda ip, f, a, k: c.cplx('ut')
    L0, L1 = c.real('L0'), c.real('L1')
    c.assume(ops.And(ops.lt(0, L0), ops.lt(0, L1)))
    c.ip.summaries['path.CubicBezier.length'] = lambda ip, f, a, k: L0 if a[0] is c0 else (L1 if a[0] is c1 else c.real('Lx'))
    c.ip.summaries['path.Line.length'] = lambda ip, f, a, k: c.real('Ll')
    il = []

    def ilength(ip, f, a, k):
        r = c.real('il%d' % len(il))
        il.append((a[0], a[1], r))
        return r
    c.ip.summaries['path.CubicBezier.ilength'] = ilength
    crops = []

    def cropped(ip, f, a, k):
        r = c.new('path.CubicBezier', *[c.cplx('crop%d_%d' % (len(crops), i)) for i in range(4)])
        crops.append((a[0], a[1], a[2], r))
        return r
    c.ip.summaries['path.CubicBezier.cropped'] = cropped
    calls = []
    _nested_joint_spy(c, calls)
    s0, elbows, s1 = c.items(c.call('smoothing.smoothed_joint', c0, c1, mj, tg))
    elbows = list(c.items(elbows))
    a = ops.If(ops.lt(mj / 2, ops.If(ops.lt(L1, L0), L1, L0) / 20), mj / 2, ops.If(ops.lt(L1, L0), L1, L0) / 20)
    c.ensures('both-cubics-are-trimmed-by-arc-length-a/2',
              len(il) == 2 and il[0][0] is c0 and il[1][0] is c1 and ops.And(ops.eq(il[0][1], L0 - a / 2), ops.eq(il[1][1], a / 2)))
    c.ensures('trimmed-pieces-are-cropped(0,t0)-and-cropped(t1,1)',
              len(crops) == 2 and crops[0][0] is c0 and crops[1][0] is c1 and
              ops.And(ops.eq(crops[0][1], 0), ops.eq(crops[0][2], il[0][2]), ops.eq(crops[1][1], il[1][2]), ops.eq(crops[1][2], 1)) and
              s0 is crops[0][3] and s1 is crops[1][3])
    c.ensures('three-nested-joints', len(calls) == 3)
    if len(calls) != 3:
        return
    for k, call in enumerate(calls):
        _, _, nmj, ntg = _joint_args(call)
        c.ensures('nested-joint-%d-gets-the-same-maxjointsize-and-tightness' % k, ops.And(ops.eq(nmj, mj), ops.eq(ntg, tg)))
    q = P[3]
    (x0, x1, _, _), (y0, y1, _, _), (z0, z1, _, _) = [_joint_args(cl) for cl in calls]
    c.ensures('nested-joint-0:trimmed-cubic-then-the-line-to-the-corner',
              x0 is s0 and c.isinstance(x1, 'path.Line') and ops.And(ops.eq(c.get(x1, 'start'), c.get(s0, 'end')), ops.eq(c.get(x1, 'end'), q)))
    c.ensures('nested-joint-1:the-line-from-the-corner-then-the-trimmed-cubic',
              y1 is s1 and c.isinstance(y0, 'path.Line') and ops.And(ops.eq(c.get(y0, 'start'), q), ops.eq(c.get(y0, 'end'), c.get(s1, 'start'))))
    c.ensures('nested-joint-2:the-two-lines-as-trimmed-by-the-first-two', z0 is calls[0]['out'][2] and z1 is calls[1]['out'][0])
    want = [calls[0]['out'][1], calls[2]['out'][0], calls[2]['out'][1], calls[2]['out'][2], calls[1]['out'][1]]
    c.ensures('elbow-is-elbow0+line+corner-elbow+line+elbow1', len(elbows) == 5 and all(x is y for x, y in zip(elbows, want)))
    for i in range(len(elbows) - 1):
        c.ensures('elbow-pieces-%d-and-%d-join' % (i, i + 1), ops.eq(c.get(elbows[i], 'end'), c.get(elbows[i + 1], 'start')))
    c.ensures('elbow-joins-the-trimmed-cubics', ops.And(ops.eq(c.get(s0, 'end'), c.get(elbows[0], 'start')), ops.eq(c.get(elbows[-1], 'end'), c.get(s1, 'start'))))


@contract('C20', 'smoothing.smoothed_path', params=[{'kinds': k, '_bounded_only': True} for k in ('LL', 'LC', 'CL', 'CC')])
def small_maxjointsize_on_long_segments_sampled(c, kinds):
    """bounded stand-in: two segments of length ~100 meeting at a corner of 40..140 degrees and a
    maxjointsize of 0.05..2 (far below the default 3): the result stays within maxjointsize of the
    original path - measured against a dense sample of the original near the corner"""
    from svgpathtools.smoothing import smoothed_path
    import svgpathtools.path as sp
    import cmath
    q = c.cplx('q')
    d0 = cmath.exp(1j * c.real('phi'))
    turn = math.radians(40 + abs(c.real('turn')) % 100) * (1 if c.bool('left') else -1)
    d1 = d0 * cmath.exp(1j * turn)
    L0, L1 = 80 + abs(c.real('l0')) % 40, 80 + abs(c.real('l1')) % 40
    a, e = q - L0 * d0, q + L1 * d1

    def seg(k, p, r, din, dout, bend):
        if k == 'L':
            return sp.Line(p, r)
        ln = abs(r - p)
        return sp.CubicBezier(p, p + din * ln / 3, r - dout * ln / 3, r)
    w = cmath.exp(0.5j)
    s0 = seg(kinds[0], a, q, d0 * w, d0, 0)
    s1 = seg(kinds[1], q, e, d1, d1 / w, 0)
    path = sp.Path(s0, s1)
    mj = 0.05 * 40 ** (abs(c.real('mj')) % 1.0)
    out = c.outcome(lambda: smoothed_path(path, maxjointsize=mj))
    c.ensures('returns', out.kind == 'ok')
    if out.kind != 'ok':
        return
    res = out.value
    # the original near the corner, densely (the smoothing may only touch a neighbourhood of the corner)
    dense = [s0.point(1 - 0.1 * k / 4000.0) for k in range(4001)] + [s1.point(0.1 * k / 4000.0) for k in range(4001)]
    worst = 0.0
    for sgm in res:
        for k in range(0, 41):
            z = sgm.point(k / 40.0)
            if abs(z - q) <= 6.0:
                worst = max(worst, min(abs(z - o) for o in dense))
    c.ensures('within-maxjointsize-of-the-original-near-the-corner', worst <= mj * 1.001 + 3e-3)
