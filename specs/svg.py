"""Reference semantics of SVG path data (SVG 1.1 section 8.3 / SVG 2 section 9.3), one command
at a time.  Written from the specification, independently of how the parser is organised.

State: dict(cur, start, prev) with prev in ('other',), ('cubic', c2), ('quad', c).
A step returns (new_state, appended_segments, closed_flag_set); segments are tuples
  ('Line', s, e) ('Cubic', s, c1, c2, e) ('Quad', s, c, e) ('Arc', s, rx, ry, rot, large, sweep, e)
Numbers may be symbolic; the only data-dependent decisions (Z adds a closing line iff the pen is
elsewhere; A with a zero radius is a line; A ending where it starts is omitted) are returned as
conditional alternatives: a list of (condition, outcome)."""
from pyvc import ops

ARITY = {'M': 2, 'Z': 0, 'L': 2, 'H': 1, 'V': 1, 'C': 6, 'S': 4, 'Q': 4, 'T': 2, 'A': 7}


def step(state, letter, args):
    """-> list of (condition, (new_state, appended, closed))"""
    cur, start, prev = state['cur'], state['start'], state['prev']
    up = letter.upper()
    rel = letter.islower()

    def pt(x, y):
        p = ops.cx(x, y)
        return cur + p if rel else p

    def st(cur_, start_, prev_):
        return {'cur': cur_, 'start': start_, 'prev': prev_}
    other = ('other',)
    if up == 'M':
        p = pt(args[0], args[1])
        return [(True, (st(p, p, other), [], False))]
    if up == 'Z':
        moved = ops.ne(cur, start)
        return [(moved, (st(start, start, other), [('Line', cur, start)], True)),
                (ops.Not(moved), (st(start, start, other), [], True))]
    if up == 'L':
        p = pt(args[0], args[1])
        return [(True, (st(p, start, other), [('Line', cur, p)], False))]
    if up == 'H':
        x = args[0] + ops.re(cur) if rel else args[0]
        p = ops.cx(x, ops.im(cur))
        return [(True, (st(p, start, other), [('Line', cur, p)], False))]
    if up == 'V':
        y = args[0] + ops.im(cur) if rel else args[0]
        p = ops.cx(ops.re(cur), y)
        return [(True, (st(p, start, other), [('Line', cur, p)], False))]
    if up == 'C':
        c1, c2, e = pt(args[0], args[1]), pt(args[2], args[3]), pt(args[4], args[5])
        return [(True, (st(e, start, ('cubic', c2)), [('Cubic', cur, c1, c2, e)], False))]
    if up == 'S':
        c1 = 2 * cur - prev[1] if prev[0] == 'cubic' else cur
        c2, e = pt(args[0], args[1]), pt(args[2], args[3])
        return [(True, (st(e, start, ('cubic', c2)), [('Cubic', cur, c1, c2, e)], False))]
    if up == 'Q':
        cq, e = pt(args[0], args[1]), pt(args[2], args[3])
        return [(True, (st(e, start, ('quad', cq)), [('Quad', cur, cq, e)], False))]
    if up == 'T':
        cq = 2 * cur - prev[1] if prev[0] == 'quad' else cur
        e = pt(args[0], args[1])
        return [(True, (st(e, start, ('quad', cq)), [('Quad', cur, cq, e)], False))]
    if up == 'A':
        rx, ry, rot, fa, fs = args[0], args[1], args[2], args[3], args[4]
        e = pt(args[5], args[6])
        same = ops.eq(e, cur)
        zero_r = ops.Or(ops.eq(rx, 0), ops.eq(ry, 0))
        return [(same, (st(e, start, other), [], False)),                               # F.6.2: omitted
                (ops.And(ops.Not(same), zero_r), (st(e, start, other), [('Line', cur, e)], False)),
                (ops.And(ops.Not(same), ops.Not(zero_r)),
                 (st(e, start, other), [('Arc', cur, rx, ry, rot, ops.ne(fa, 0), ops.ne(fs, 0), e)], False))]
    raise ValueError(letter)
