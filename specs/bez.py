"""Bernstein / polynomial specs (C03, C19, C09, C10, C14)."""
from pyvc import ops


def bern(P, t):
    """sum_i C(n,i) (1-t)^(n-i) t^i P_i"""
    n = len(P) - 1
    s = 0
    for i in range(n + 1):
        s = s + ops.binom(n, i) * ops.pw(1 - t, n - i) * ops.pw(t, i) * P[i]
    return s


def diffs(P, k):
    """k-th forward differences of the control points"""
    P = list(P)
    for _ in range(k):
        P = [P[i + 1] - P[i] for i in range(len(P) - 1)]
    return P


def dbern(P, t, k):
    """k-th derivative in t of bern(P, t)"""
    n = len(P) - 1
    if k > n:
        return 0
    f = 1
    for j in range(k):
        f *= (n - j)
    return f * bern(diffs(P, k), t)


def horner(coeffs, t):
    """coefficients highest power first"""
    r = 0
    for c in coeffs:
        r = r * t + c
    return r


def poly_deriv(coeffs):
    n = len(coeffs) - 1
    return [c * (n - i) for i, c in enumerate(coeffs[:-1])] or [0]


def reparam(P, a, b, u):
    """the curve u -> bern(P, a + u*(b-a))"""
    return bern(P, a + u * (b - a))
