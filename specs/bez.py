"""Bernstein / polynomial specs (C03, C19, C09, C10, C14)."""
from pyvc import ops


def bern(P, t):
    """sum_i C(n,i) (1-t)^(n-i) t^i P_i"""
    n = len(P) - 1
    s = 0
    for i in range(n + 1):
        s = s + ops.binom(n, i) * ops.pw(1 - t, n - i) * ops.pw(t, i) * P[i]
    return s


def diffs(P, k):
    """k-th forward differences of the control points"""
    P = list(P)
    for _ in range(k):
        P = [P[i + 1] - P[i] for i in range(len(P) - 1)]
    return P


def dbern(P, t, k):
    """k-th derivative in t of bern(P, t)"""
    n = len(P) - 1
    if k > n:
        return 0
    f = 1
    for j in range(k):
        f *= (n - j)
    return f * bern(diffs(P, k), t)


def horner(coeffs, t):
    """coefficients highest power first"""
    r = 0
    for c in coeffs:
        r = r * t + c
    return r


def poly_deriv(coeffs):
    n = len(coeffs) - 1
    return [c * (n - i) for i, c in enumerate(coeffs[:-1])] or [0]


def reparam(P, a, b, u):
    """the curve u -> bern(P, a + u*(b-a))"""
    return bern(P, a + u * (b - a))


def split_points(P, t):
    """control points of the two sub-curves of a split at t:
    left_i = bern(P[0..i], t), right_i = bern(P[i..n], t)"""
    n = len(P) - 1
    left = [bern(P[:i + 1], t) for i in range(n + 1)]
    right = [bern(P[i:], t) for i in range(n + 1)]
    return left, right


def power_coeffs(P):
    """coefficients of bern(P, t) in the monomial basis, highest power first:
    c_j = C(n,j) * sum_{i<=j} (-1)^(j-i) C(j,i) P_i"""
    n = len(P) - 1
    out = []
    for j in range(n, -1, -1):
        s = 0
        for i in range(j + 1):
            s = s + ((-1) ** (j - i)) * ops.binom(j, i) * P[i]
        out.append(ops.binom(n, j) * s)
    return out


def green_integral(P):
    """int_0^1 x(t) y'(t) dt for the Bezier curve with control points P, from the monomial
    coefficients: x = sum a_j t^j, y = sum b_k t^k  ->  sum_{j,k>=1} a_j k b_k / (j+k)"""
    co = power_coeffs(P)[::-1]                  # co[j] multiplies t**j
    a = [ops.re(z) for z in co]
    b = [ops.im(z) for z in co]
    s = 0
    for j in range(len(a)):
        for k in range(1, len(b)):
            s = s + a[j] * (k * b[k]) / (j + k)
    return s
