"""Polynomial specs: Taylor coefficients, the repo-independent notion of 'close' roots."""
from pyvc import ops


def taylor(coeffs_high_first, t0):
    """Taylor coefficients a_0..a_n at t0 of the polynomial with the given coefficients
    (highest power first): a_k = sum_{j>=k} C(j,k) c_j t0^(j-k)."""
    c = list(coeffs_high_first)[::-1]          # c[j] multiplies t**j
    n = len(c) - 1
    out = []
    for k in range(n + 1):
        s = 0
        for j in range(k, n + 1):
            s = s + ops.binom(j, k) * c[j] * ops.pw(t0, j - k)
        out.append(s)
    return out


def isclose(a, b, rtol=None, atol=None):
    """|a-b| < atol + rtol*|b| with the documented defaults 1e-5 / 1e-8 (clustering notion used
    by the statement 'simple, well separated roots')"""
    from fractions import Fraction
    rtol = Fraction(1, 10**5) if rtol is None else rtol
    atol = Fraction(1, 10**8) if atol is None else atol
    if isinstance(a, float) or isinstance(b, float):
        rtol, atol = float(rtol), float(atol)
    return ops.lt(ops.absv(a - b), atol + rtol * ops.absv(b))
