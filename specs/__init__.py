"""Spec functions: the mathematical vocabulary of the properties.  Written generically over the
number tower of pyvc.ops, so each has a z3 reading (for VCs) and a float reading (for replay).
They never read /repo."""
