"""Concrete evaluation of contracts against the real library (runs under /venv/bin/python).

  python -m pyvc.replay FILE                     re-run one counter-model on the real code
  python -m pyvc.replay --bounded PROP --n N     bounded stand-in: N random inputs per contract
"""
import json
import math
import os
import random
import sys
import traceback
import warnings

HERE = os.path.dirname(os.path.dirname(os.path.abspath(__file__)))
if HERE not in sys.path:
    sys.path.insert(0, HERE)

from pyvc import dsl  # noqa: E402


class RandomInputs(dict):
    """inputs generated on demand, deterministic in (seed, contract, sample number)"""
    def __init__(self, rng):
        dict.__init__(self)
        self.rng = rng
        self.scale = 10.0 ** rng.choice([-3, -1, 0, 0, 0, 1, 2, 3, 6])

    def gen_real(self, name):
        r = self.rng
        k = r.random()
        if name in ('t', 'u', 't0', 't1', 'T', 's'):
            if k < 0.1:
                return r.choice([0.0, 1.0, 0.5, 0.25])
            if k < 0.25:
                return r.uniform(-0.1, 1.1)
            return r.random()
        if k < 0.08:
            return 0.0
        if k < 0.2:
            return float(r.randint(-5, 5)) * self.scale
        return r.uniform(-1, 1) * self.scale


def _stable_seed(*parts):
    """a seed that is the same in every process (str hashes are randomised per process)"""
    import zlib
    return zlib.crc32(repr(parts).encode('utf-8')) & 0xffffffff


class BoundedCtx(dsl.ConcContext):
    def __init__(self, rnd, contract):
        dsl.ConcContext.__init__(self, rnd, contract)
        self.rnd = rnd

    def real(self, name):
        if name not in self.inputs:
            self.inputs[name] = self.rnd.gen_real(name.split('.')[0])
        return float(self.inputs[name])

    def int(self, name):
        if name not in self.inputs:
            self.inputs[name] = self.rnd.rng.randint(-1, 6)
        return int(self.inputs[name])

    def bool(self, name):
        if name not in self.inputs:
            self.inputs[name] = self.rnd.rng.random() < 0.5
        return bool(self.inputs[name])


def find_contract(module, fname, params):
    import importlib
    importlib.import_module(module)
    for c in dsl.REGISTRY:
        if c.fn.__module__ == module and c.fn.__name__ == fname and c.params == params:
            return c
    raise KeyError("contract %s.%s %r not found" % (module, fname, params))


def run_once(ct, ctx):
    """returns (status, failed_clauses, exception)"""
    try:
        with warnings.catch_warnings():
            warnings.simplefilter('ignore')
            ct.fn(ctx, **{k: v for k, v in ct.params.items() if not k.startswith('_')})
    except dsl.ConcContext.Vacuous:
        return 'vacuous', [], None
    except Exception as e:
        import traceback as _tb
        frames = _tb.extract_tb(e.__traceback__)
        inner = frames[-1].filename if frames else ''
        where = 'library' if ('svgpathtools' in inner or 'site-packages' in inner or '/lib/python' in inner) else 'contract'
        return 'exception', [n for n, ok in ctx.results if not ok], '%s: %s [raised in %s code: %s:%s]' % (
            type(e).__name__, str(e)[:300], where, inner.split('/')[-1], frames[-1].lineno if frames else 0)
    failed = [n for n, ok in ctx.results if not ok]
    return ('fail' if failed else 'pass'), failed, None


def replay_file(path):
    doc = json.load(open(path))
    ct = find_contract(doc['contract_module'], doc['contract_fn'], doc['params'])
    clause = doc.get('clause')
    if ct.params.get('_euf'):
        # the counter-model of an EUF obligation interprets + and *, it is not an input: search
        # seeded random inputs on the real code for the pattern the failed clause names
        seed = int(os.environ.get('VERIF_SEED', '0') or 0)
        tried = 0
        for i in range(400):
            rng = random.Random(_stable_seed(seed, 'euf', doc['obligation'], i))
            ctx = BoundedCtx(RandomInputs(rng), ct)
            status, failed, exc = run_once(ct, ctx)
            if status == 'vacuous':
                continue
            tried += 1
            if clause in failed or (doc.get('kind') == 'noexc' and status == 'exception'):
                return {'reproduced': True, 'status': status, 'failed_clauses': failed, 'exception': exc,
                        'search': 'seeded random search, %d inputs tried' % tried, 'inputs': dict(ctx.inputs)}
        return {'reproduced': False, 'status': 'pass', 'failed_clauses': [], 'exception': None,
                'search': 'seeded random search, %d inputs tried, none failed' % tried}
    ctx = dsl.ConcContext(dict(doc['inputs']), ct)
    status, failed, exc = run_once(ct, ctx)
    reproduced = False
    if doc.get('kind') == 'noexc':
        reproduced = status == 'exception'
    else:
        # an intermediate cut obligation (`cut:` prefix) has no run-time counterpart: its
        # counterexample is reproduced when a postcondition clause fails on the real code
        reproduced = (clause in failed) or (clause.startswith('cut:') and bool(failed))
    res = {'reproduced': bool(reproduced), 'status': status, 'failed_clauses': failed, 'exception': exc,
           'clauses_evaluated': [n for n, _ in ctx.results], 'inputs_missing': ctx.missing[:10]}
    if reproduced:
        return res
    # The counter-model interprets the uninterpreted symbols (cos/sin atoms, sqrt witnesses, callee
    # contracts) freely, so its inputs need not fail on the real code (e.g. an angle of 0 with
    # cos = 0.6).  Search near it: re-draw random subsets of the real inputs, keep the others (the
    # ones the path condition forces, such as origin == 0) -- a failing input found this way is a
    # failure of the real code on the same clause, nothing is inferred from not finding one.
    seed = int(os.environ.get('VERIF_SEED', '0') or 0)
    base = dict(doc['inputs'])
    names = sorted(k for k, v in base.items() if isinstance(v, float) or (isinstance(v, int) and not isinstance(v, bool)))
    tried = 0
    for i in range(80 if names else 0):
        rng = random.Random(_stable_seed(seed, 'near', doc.get('obligation', ''), i))
        inp = dict(base)
        prob = (0.15, 0.3, 0.6)[i % 3]
        for k in names:
            if isinstance(base[k], float) and rng.random() < prob:
                inp[k] = rng.choice([rng.uniform(-2, 2), rng.uniform(-200, 200), float(rng.randint(-3, 3))])
        c2 = dsl.ConcContext(inp, ct)
        st2, failed2, exc2 = run_once(ct, c2)
        if st2 == 'vacuous':
            continue
        tried += 1
        hit = (st2 == 'exception') if doc.get('kind') == 'noexc' else \
            ((clause in failed2) or (clause.startswith('cut:') and bool(failed2)))
        if hit:
            return {'reproduced': True, 'status': st2, 'failed_clauses': failed2, 'exception': exc2,
                    'search': 'counter-model did not fail as given; failing input found by re-drawing inputs near it (%d tried)' % tried,
                    'inputs': inp}
    res['search'] = 'counter-model did not fail as given; %d nearby inputs tried, none failed' % tried
    return res


def bounded(prop, n, seed, all_failures=False):
    cts = dsl.load_contracts(prop)
    out = {'property': prop, 'n_per_contract': n, 'seed': seed, 'contracts': [], 'failures': [],
           'evaluations': 0, 'note': 'bounded stand-in: same contracts evaluated with float tolerance on random inputs '
                                     'against the real library; never counted as proved'}
    per_key = {}
    for ct in cts:
        if ct.params.get('_no_bounded'):
            continue
        st = {'contract': ct.ident(), 'pass': 0, 'fail': 0, 'vacuous': 0, 'exception': 0, 'not_replayable': False}
        for i in range(n):
            rng = random.Random(_stable_seed(seed, ct.ident(), i))
            ctx = BoundedCtx(RandomInputs(rng), ct)
            try:
                status, failed, exc = run_once(ct, ctx)
            except Exception as e:  # harness itself not concrete-capable
                st['not_replayable'] = '%s: %s' % (type(e).__name__, str(e)[:120])
                break
            st[status] += 1
            if status == 'exception' and exc and '[raised in contract code' in exc:
                # a bug of the stand-in itself, not an observation of the library
                st['harness_error'] = exc
            key = (ct.ident(), (failed or ['no-unexpected-exception'])[0])
            per_key[key] = per_key.get(key, 0) + (1 if status in ('fail', 'exception') else 0)
            if status in ('fail', 'exception') and (all_failures or per_key[key] <= 3):
                out['failures'].append({'contract': ct.ident(), 'clause': (failed or ['no-unexpected-exception'])[0],
                                        'failed': failed, 'exception': exc,
                                        'inputs': {k: v for k, v in ctx.inputs.items()}})
            if status != 'vacuous':
                out['evaluations'] += 1
        out['contracts'].append(st)
    return out


def main():
    a = sys.argv[1:]
    if a and a[0] == '--bounded':
        prop = a[1]
        n = int(a[a.index('--n') + 1]) if '--n' in a else 50
        seed = int(a[a.index('--seed') + 1]) if '--seed' in a else 0
        try:
            print(json.dumps(bounded(prop, n, seed, '--all-failures' in a), default=str))
        except Exception as e:
            print(json.dumps({'error': '%s: %s' % (type(e).__name__, e), 'trace': traceback.format_exc()[-800:]}))
        return 0
    try:
        print(json.dumps(replay_file(a[0]), default=str))
    except Exception as e:
        print(json.dumps({'reproduced': False, 'error': '%s: %s' % (type(e).__name__, e),
                          'trace': traceback.format_exc()[-800:]}))
    return 0


if __name__ == '__main__':
    sys.exit(main())
