"""CLI:  python3-vt -m pyvc.check <PROPERTY> [--tier quick|thorough] [--repo DIR] [--only SUBSTR]
         python3-vt -m pyvc.check --replay FILE

Exit codes: 0 property held on everything explored; 1 violation (VIOLATION line printed);
2 undecided (some obligation unknown / unsupported; no VIOLATION line); 3 checker error.
"""
import argparse
import json
import multiprocessing as mp
import os
import subprocess
import sys
import time
import traceback

HERE = os.path.dirname(os.path.dirname(os.path.abspath(__file__)))
if HERE not in sys.path:
    sys.path.insert(0, HERE)

from pyvc import source, dsl  # noqa: E402

VENV_PY = '/venv/bin/python'
OUT = os.path.join(HERE, 'out')
NPROC = int(os.environ.get('PYVC_NPROC', '16'))


# ---------------------------------------------------------------------- worker

def _task(contract_idx, prop, tier, repo, budget_scale, conn):
    """explore one contract instance, discharge its obligations; send a JSON-able dict"""
    t0 = time.time()
    out = {'idx': contract_idx, 'obligations': [], 'error': None}
    try:
        import z3
        from pyvc import explore, solve, interp as I, sym
        from pyvc.explore import Unsupported
        source.set_repo(repo)
        contracts = dsl.load_contracts(prop)
        ct = contracts[contract_idx]
        out['contract'] = ct.ident()
        from contracts import _summaries
        summ = dict(_summaries.for_contract(ct))
        sym.MODE[0] = 'euf' if ct.params.get('_euf') else 'real'
        if ct.params.get('_euf'):
            summ = {}     # exactness clauses execute everything in place: the terms must be the code's own
        info = {'inlined': set(), 'summarised': set(), 'inputs': {}, 'warn_calls': 0, 'notes': []}

        def harness(ctx):
            c = dsl.SymContext(ctx, ct, summaries=dict(summ))
            try:
                ct.fn(c, **{k: v for k, v in ct.params.items() if not k.startswith('_')})
            except I.PyRaise as pr:
                ctx.oblige('no-unexpected-exception', False,
                           {'exception': pr.exc.cls.name, 'args': repr(pr.exc.attrs.get('args'))[:200]}, kind='noexc')
            except I.Undefined as u:
                ctx.oblige('no-undefined-value', False, {'undefined': str(u)}, kind='noexc')
            except (KeyError, IndexError, TypeError, AttributeError) as e:
                # raised by the contract's own Python code: it indexed something it expected the code
                # to have called or returned.  On the unchanged tree that is a bug of the contract (the
                # run is then undecided, exit 2, and gets noticed); on a changed tree it says the code
                # no longer has the shape the contract was written for - undecided, never a crash
                import traceback as _tb
                fr = _tb.extract_tb(e.__traceback__)
                where = fr[-1].filename if fr else ''
                if '/contracts/' in where:
                    raise Unsupported("the contract's harness does not fit the code under test (%s: %s at %s:%d)" % (
                        type(e).__name__, str(e)[:80], where.split('/')[-1], fr[-1].lineno))
                raise
            finally:
                info['inlined'] |= c.ip.inlined
                info['summarised'] |= c.ip.summarised
                info['warn_calls'] += c.ip.warn_calls
                for k, (kind, _) in ctx.inputs.items():
                    info['inputs'][k] = kind
                info['notes'].extend(ctx.notes)

        res = explore.explore(harness, max_paths=ct.params.get('_max_paths', 3000),
                              time_budget=600 if tier == 'quick' else 3600)
        out['paths'] = len(res.paths)
        out['aborted'] = res.aborted
        out['truncated'] = res.truncated
        out['unsupported'] = res.unsupported[:5]
        out['explore_s'] = round(res.wall, 3)
        out['inlined'] = sorted(info['inlined'])
        out['summarised'] = sorted(info['summarised'])
        out['inputs'] = info['inputs']
        out['warn_calls'] = info['warn_calls']
        out['axioms'] = sorted(set(n[1] for n in info['notes'] if n[0] == 'axiom'))
        out['lemmas'] = sorted(set(n[1] for n in info['notes'] if n[0] == 'lemma'))
        # vacuity: at least one completed path with satisfiable hypotheses
        reach = {'sat': 0, 'unsat': 0, 'unknown': 0}
        for p in res.paths[:50]:
            reach[solve.hyps_satisfiable(p.hyps(), 1500)] += 1
        out['reachable_paths'] = reach
        budget = ct.budget * budget_scale
        seen = {}
        for ob in res.obligations:
            k = seen.get(ob.name, 0)
            seen[ob.name] = k + 1
            name = '%s/%s/path%d' % (ct.ident(), ob.name, ob.path)
            r = solve.discharge(ob, budget_s=budget, cross=(tier == 'thorough'))
            rec = {'name': name, 'clause': ob.name, 'kind': ob.kind, 'status': r['status'],
                   'backend': r['backend'], 'time': round(r['time'], 4), 'tried': r['tried'],
                   'meta': ob.meta, 'size': len(ob.hyps)}
            if 'cross' in r:
                rec['cross'] = r['cross']
            if r['status'] == 'sat':
                rec['model'] = r['model']
                rec['goal'] = str(ob.goal)[:400]
            if r['status'] == 'unknown' and os.environ.get('PYVC_DUMP'):
                rec['smt2'] = solve.to_smt2(ob.hyps, ob.goal)
            out['obligations'].append(rec)
    except Exception as e:
        out['error'] = '%s: %s\n%s' % (type(e).__name__, e, traceback.format_exc()[-1500:])
    out['wall'] = round(time.time() - t0, 3)
    try:
        conn.send(out)
    finally:
        conn.close()


def run_pool(prop, contracts, tier, repo, only=None, select=None):
    ctx = mp.get_context('fork')
    todo = [i for i, c in enumerate(contracts)
            if (c.tier == 'quick' or (tier == 'thorough' and c.tier == 'thorough')) and (only is None or only in c.ident())
            and not c.params.get('_bounded_only') and (select is None or i in select)]
    results = {}
    running = {}
    hard_limit = 900 if tier == 'quick' else 7200
    budget_scale = 1.0 if tier == 'quick' else 5.0
    queue = list(todo)
    while queue or running:
        while queue and len(running) < NPROC:
            i = queue.pop(0)
            pc, cc = ctx.Pipe(duplex=False)
            p = ctx.Process(target=_task, args=(i, prop, tier, repo, budget_scale, cc))
            p.start()
            cc.close()
            running[i] = (p, pc, time.time())
        done = []
        for i, (p, pc, t0) in running.items():
            if pc.poll(0.02):
                try:
                    results[i] = pc.recv()
                except EOFError:
                    results[i] = {'idx': i, 'error': 'worker died', 'obligations': [], 'contract': contracts[i].ident()}
                p.join(5)
                done.append(i)
            elif not p.is_alive():
                results[i] = {'idx': i, 'error': 'worker exited without result (exit %s)' % p.exitcode,
                              'obligations': [], 'contract': contracts[i].ident()}
                done.append(i)
            elif time.time() - t0 > hard_limit:
                p.kill()
                results[i] = {'idx': i, 'error': 'hard time limit (%ds)' % hard_limit, 'obligations': [],
                              'contract': contracts[i].ident(), 'timeout': True}
                done.append(i)
        for i in done:
            running.pop(i)
    return [results[i] for i in todo]


# ---------------------------------------------------------------------- replay

def model_to_inputs(model, inputs):
    from fractions import Fraction
    vals = {}
    for name, kind in inputs.items():
        v = (model or {}).get(name)
        if v is None:
            vals[name] = 0.0 if kind == 'real' else (0 if kind == 'int' else False)
            continue
        if kind == 'bool':
            vals[name] = (v == 'true')
        elif kind == 'int':
            vals[name] = int(Fraction(v))
        else:
            try:
                vals[name] = float(Fraction(v))
            except Exception:
                vals[name] = 0.0
    return vals


def write_replay(prop, rec, ct, inputs, repo):
    d = os.path.join(OUT, 'replay', prop)
    os.makedirs(d, exist_ok=True)
    safe = rec['name'].replace('/', '__').replace('[', '(').replace(']', ')')
    path = os.path.join(d, safe + '.json')
    doc = {'property': prop, 'obligation': rec['name'], 'clause': rec['clause'], 'kind': rec['kind'],
           'contract_module': ct.fn.__module__, 'contract_fn': ct.fn.__name__, 'params': ct.params,
           'target': ct.target, 'target_sha': source.function_sha(ct.target),
           'solver': rec['backend'], 'model': rec.get('model'), 'goal': rec.get('goal'),
           'meta': rec.get('meta'), 'inputs': model_to_inputs(rec.get('model'), inputs),
           'repo': repo, 'repo_head': source.repo_head()}
    with open(path, 'w') as f:
        json.dump(doc, f, indent=1, default=str)
    return path


def run_replay(path, repo=None):
    """execute the recipe on the real code (subprocess under /venv/bin/python)"""
    env = dict(os.environ)
    doc = json.load(open(path))
    repo = repo or doc.get('repo') or '/repo'
    env['PYTHONPATH'] = HERE + os.pathsep + repo
    env['PYVC_REPO'] = repo
    p = subprocess.run([VENV_PY, '-m', 'pyvc.replay', path], capture_output=True, text=True, env=env,
                       cwd=HERE, timeout=600)
    try:
        res = json.loads(p.stdout.strip().split('\n')[-1])
    except Exception:
        res = {'reproduced': False, 'error': (p.stdout + p.stderr)[-800:]}
    doc['replay_result'] = res
    with open(path, 'w') as f:
        json.dump(doc, f, indent=1, default=str)
    return res


# ---------------------------------------------------------------------- known findings

def _same_inputs(a, b):
    if not isinstance(a, dict) or not isinstance(b, dict) or set(a) != set(b):
        return False
    return all(a[k] == b[k] for k in a)


def load_known():
    p = os.path.join(HERE, 'known_findings.json')
    if not os.path.exists(p):
        return {'findings': [], 'fixed': []}
    return json.load(open(p))


def match_known(prop, rec, known):
    for k in known.get('findings', []):
        if k['property'] != prop:
            continue
        if k['obligation'] == _strip_path(rec['name']):
            return k
    return None


def _strip_path(name):
    parts = name.split('/')
    if parts and parts[-1].startswith('path'):
        parts = parts[:-1]
    return '/'.join(parts)


# ---------------------------------------------------------------------- main

def main(argv=None):
    ap = argparse.ArgumentParser()
    ap.add_argument('prop', nargs='?')
    ap.add_argument('--tier', default=os.environ.get('VERIF_TIER', 'quick'))
    ap.add_argument('--repo', default=os.environ.get('PYVC_REPO', '/repo'))
    ap.add_argument('--replay')
    ap.add_argument('--only')
    ap.add_argument('--no-evidence', action='store_true')
    ap.add_argument('--no-bounded', action='store_true')
    ap.add_argument('-v', action='store_true')
    a = ap.parse_args(argv)
    if a.replay:
        r = run_replay(a.replay)
        print(json.dumps(r))
        return 1 if r.get('reproduced') else 0
    if not a.prop:
        ap.error("property id required")
    prop = a.prop
    seed = int(os.environ.get('VERIF_SEED', '0') or 0)
    t0 = time.time()
    try:
        source.set_repo(a.repo)
        contracts = dsl.load_contracts(prop)
    except Exception as e:
        print("CHECKER-ERROR loading contracts: %s" % e)
        traceback.print_exc()
        return 3
    if not contracts:
        print("CHECKER-ERROR no contracts registered for %s" % prop)
        return 3
    results = run_pool(prop, contracts, a.tier, a.repo, a.only)
    # callee contracts: the summaries these contracts relied on are discharged by contracts that
    # belong to other properties; re-run those here, so that this property's check notices a
    # change inside a callee (modular soundness per property, not only for the whole set)
    callee_contracts = []
    if not a.only:
        from contracts import _summaries
        used = set()
        for r in results:
            used |= set(r.get('summarised', []) or [])
        extra = _summaries.verifying_contracts(used, prop, dsl.REGISTRY)
        owners = {}
        for c in extra:
            owners.setdefault(c.prop, []).append(c)
        contracts = list(contracts)
        for owner, cts in sorted(owners.items()):
            owner_all = dsl.load_contracts(owner)
            sel = set(owner_all.index(c) for c in cts)
            for r in run_pool(owner, owner_all, 'quick', a.repo, None, select=sel):
                c = owner_all[r['idx']]
                r['idx'] = len(contracts)
                contracts.append(c)
                results.append(r)
                callee_contracts.append(c.ident())
    known = load_known()
    n_ob = n_dis = 0
    violations = []
    undecided = []
    errors = []
    known_hits = []
    backends = {}
    per_contract = []
    samples = []
    funcs = {}
    all_inlined = set()
    all_summ = set()
    axioms = set()
    lemmas_used = set()
    vacuous = []
    pending_replays = []
    for r in results:
        ct = contracts[r['idx']]
        if r.get('error'):
            if r.get('timeout'):
                undecided.append({'contract': ct.ident(), 'reason': r['error']})
            else:
                errors.append({'contract': ct.ident(), 'error': r['error']})
            continue
        if r.get('unsupported'):
            undecided.append({'contract': ct.ident(), 'reason': 'unsupported construct: %s' % r['unsupported'][0]})
        if r.get('truncated'):
            undecided.append({'contract': ct.ident(), 'reason': 'path exploration truncated'})
        if not r['obligations'] and not r.get('unsupported'):
            errors.append({'contract': ct.ident(), 'error': 'zero obligations generated'})
        rp = r.get('reachable_paths', {})
        if r['obligations'] and rp.get('sat', 0) == 0:
            vacuous.append({'contract': ct.ident(), 'reachable_paths': rp})
        all_inlined |= set(r.get('inlined', []))
        all_summ |= set(r.get('summarised', []))
        axioms |= set(r.get('axioms', []))
        lemmas_used |= set(r.get('lemmas', []))
        funcs[ct.target] = {'sha': source.function_sha(ct.target), 'level': ct.level}
        cdis = 0
        for rec in r['obligations']:
            be = rec['backend'] or 'none'
            b = backends.setdefault(be, {'count': 0, 'seconds': 0.0})
            b['count'] += 1
            b['seconds'] += rec['time']
            if rec['status'] == 'unsat':
                n_ob += 1
                n_dis += 1
                cdis += 1
                if len(samples) < 6 and rec['kind'] == 'ensures':
                    samples.append({'obligation': rec['name'], 'backend': rec['backend'], 'seconds': rec['time'],
                                    'hypotheses': rec['size']})
            elif rec['status'] == 'sat':
                kf = match_known(prop, rec, known)
                path = write_replay(prop, rec, ct, r.get('inputs', {}), a.repo)
                pending_replays.append((kf, rec, path))
                if kf is None:
                    n_ob += 1
            else:
                n_ob += 1
                undecided.append({'obligation': rec['name'], 'reason': 'solver unknown (%s)' % ','.join(rec['tried'])})
        if a.v:
            for rec in r['obligations']:
                if rec['time'] > 3:
                    print("   slow %.1fs %s %s %s" % (rec['time'], rec['status'], rec['backend'], rec['name']))
        per_contract.append({'contract': ct.ident(), 'level': ct.level, 'paths': r.get('paths'), 'obligations': len(r['obligations']),
                             'discharged': cdis, 'explore_s': r.get('explore_s'), 'wall_s': r.get('wall'),
                             'reachable_paths': rp, 'warn_calls_dropped': r.get('warn_calls', 0)})
    # replay every counter-model on the real code (concurrently)
    if pending_replays:
        from concurrent.futures import ThreadPoolExecutor

        def _rp(item):
            kf, rec, path = item
            try:
                return run_replay(path, a.repo)
            except Exception as e:
                return {'reproduced': False, 'error': str(e)}
        with ThreadPoolExecutor(max_workers=NPROC) as ex:
            rrs = list(ex.map(_rp, pending_replays))
        for (kf, rec, path), rr in zip(pending_replays, rrs):
            if kf is not None:
                known_hits.append({'finding': kf, 'obligation': rec['name'], 'replay': path,
                                   'reproduced': rr.get('reproduced')})
            else:
                violations.append({'obligation': rec['name'], 'replay': path, 'reproduced': bool(rr.get('reproduced')),
                                   'meta': rec.get('meta'), 'backend': rec['backend'], 'detail': rr})
    # recorded known findings with a concrete failing input: replay that input on the real code
    for i, k in enumerate(known.get('findings', [])):
        if k['property'] != prop or 'inputs' not in k or a.only:
            continue
        d = os.path.join(OUT, 'replay', prop)
        os.makedirs(d, exist_ok=True)
        path = os.path.join(d, 'known_finding_%d.json' % i)
        with open(path, 'w') as fh:
            json.dump({'property': prop, 'obligation': k['obligation'], 'clause': k['clause'], 'kind': 'bounded',
                       'contract_module': k['contract']['module'], 'contract_fn': k['contract']['fn'],
                       'params': k['contract']['params'], 'inputs': k['inputs'], 'repo': a.repo,
                       'solver': 'recorded input of a known finding'}, fh, indent=1)
        try:
            rr = run_replay(path, a.repo)
        except Exception as e:
            rr = {'reproduced': False, 'error': str(e)}
        if rr.get('reproduced'):
            known_hits.append({'finding': k, 'obligation': k['obligation'], 'replay': path, 'reproduced': True, 'recorded_input': True})
    # bounded companions (never counted as proved)
    bounded = None
    if not a.no_bounded and not errors:
        try:
            bounded = run_bounded(prop, a.repo, seed, a.tier)
        except Exception as e:
            bounded = {'error': str(e)}
        if bounded and not bounded.get('error'):
            # a stand-in that never evaluates, or that crashes in its own code, checks nothing
            bo_all = set(c.ident() for c in contracts if c.params.get('_bounded_only'))
            for stc in bounded.get('contracts', []):
                if stc['contract'] not in bo_all:
                    continue
                if stc.get('harness_error'):
                    errors.append({'contract': stc['contract'], 'error': 'bounded stand-in raised in its own code: %s' % stc['harness_error']})
                elif stc.get('not_replayable'):
                    errors.append({'contract': stc['contract'], 'error': 'bounded stand-in cannot be evaluated: %s' % stc['not_replayable']})
                elif stc['pass'] + stc['fail'] + stc['exception'] == 0:
                    errors.append({'contract': stc['contract'], 'error': 'bounded stand-in evaluated no sample (all %d vacuous)' % stc['vacuous']})
        elif bounded and bounded.get('error'):
            errors.append({'contract': 'bounded stand-ins', 'error': 'bounded run failed: %s' % bounded['error']})
        if bounded and bounded.get('failures'):
            # only contracts written for floats (`_bounded_only`) decide; failures of clauses that
            # are proved over the reals are rounding effects and are reported, not violations
            bo = set(c.ident() for c in contracts if c.params.get('_bounded_only'))
            seen_b = set()

            def _known_for(key, f):
                for k in known.get('findings', []):
                    if k['property'] == prop and k['obligation'] == '%s/%s' % key:
                        # a finding recorded with "match": "inputs" covers exactly its recorded input:
                        # any other failing input of the same clause is a new violation
                        if k.get('match') == 'inputs' and not _same_inputs(k.get('inputs'), f.get('inputs')):
                            continue
                        return k
                return None
            # contracts that could not be decided as a whole (a construct the engine does not support,
            # exploration truncated, hard time limit): only there the float companion decides - a
            # concrete failure of the same clause on the real code is the best evidence available,
            # and on a tree where everything is decided this never applies
            undecided_contracts = set(u['contract'] for u in undecided if 'contract' in u)
            for f in bounded['failures']:
                if f['contract'] not in bo and f['contract'] not in undecided_contracts:
                    continue
                if f['contract'] not in bo and '[raised in contract code' in (f.get('exception') or ''):
                    continue        # the harness itself does not fit: no evidence either way
                key = (f['contract'], f['clause'])
                kf0 = _known_for(key, f)
                skey = key + (('known', id(kf0)) if kf0 is not None else ('new',))
                if skey in seen_b:
                    continue
                seen_b.add(skey)
                d = os.path.join(OUT, 'replay', prop)
                os.makedirs(d, exist_ok=True)
                ctb = [c for c in contracts if c.ident() == f['contract']][0]
                if f['contract'] in undecided_contracts and f['contract'] not in bo:
                    f = dict(f, note='float companion of a contract the engine could not decide on this tree')
                path = os.path.join(d, ('%s__%s' % key).replace('/', '__').replace('[', '(').replace(']', ')') + '.json')
                with open(path, 'w') as fh:
                    json.dump({'property': prop, 'obligation': '%s/%s' % key, 'clause': f['clause'], 'kind': 'bounded',
                               'contract_module': ctb.fn.__module__, 'contract_fn': ctb.fn.__name__, 'params': ctb.params,
                               'target': ctb.target, 'inputs': f['inputs'], 'solver': 'bounded stand-in (concrete evaluation on the real code)',
                               'repo': a.repo, 'replay_result': {'reproduced': True, 'failed_clauses': f['failed'], 'exception': f['exception']}},
                              fh, indent=1, default=str)
                kf = kf0
                if kf is not None:
                    known_hits.append({'finding': kf, 'obligation': '%s/%s' % key, 'replay': path, 'reproduced': True})
                else:
                    violations.append({'obligation': '%s/%s' % key, 'replay': path, 'reproduced': True, 'meta': None,
                                       'backend': 'bounded', 'detail': f})
    wall = time.time() - t0
    status = 0
    if errors or vacuous:
        status = 3
    elif violations:
        status = 1
    elif undecided:
        status = 2
    # ---- evidence
    from contracts import _summaries
    ev = {
        'property_id': prop, 'tier': a.tier if a.tier in ('quick', 'thorough') else 'quick', 'seed': seed, 'level': 'proof',
        'coverage': {
            'obligations': n_ob, 'discharged': n_dis,
            'checker_cmd': 'python3-vt -m pyvc.check %s --tier %s' % (prop, a.tier),
            'trusted_base': _summaries.trusted_base(prop, all_summ, axioms),
            'samples': samples,
            'functions_under_contract': funcs,
            'functions_executed_in_place': sorted(all_inlined - set(funcs)),
            'callee_contracts_used_at_call_sites': sorted(all_summ),
            'callee_contracts_rerun_under_this_property': sorted(callee_contracts),
            'ghost_lemmas_used': sorted(lemmas_used),
            'backends': {k: {'count': v['count'], 'seconds': round(v['seconds'], 3)} for k, v in backends.items()},
            'per_contract': per_contract,
            'undecided': undecided, 'errors': errors, 'vacuous': vacuous,
            'known_findings_hit': known_hits,
            'violations_detail': violations,
            'bounded': bounded,
            'repo_head': source.repo_head(),
            'extraction_drops': 'docstrings, comments, warn()/warnings.warn() calls (counted per contract), print()',
        },
        'assumptions': _summaries.assumptions(prop, all_summ, axioms),
        'wall_s': round(wall, 2), 'violations': len(violations),
    }
    if not a.no_evidence and a.only is None:
        os.makedirs(os.path.join(HERE, 'evidence'), exist_ok=True)
        with open(os.path.join(HERE, 'evidence', prop + '.json'), 'w') as f:
            json.dump(ev, f, indent=1, default=str)
    # ---- report
    print("%s tier=%s contracts=%d obligations=%d discharged=%d undecided=%d violations=%d known=%d wall=%.1fs"
          % (prop, a.tier, len(results), n_ob, n_dis, len(undecided), len(violations), len(known_hits), wall))
    if a.v:
        for pc in per_contract:
            print("  ", pc)
    for e in errors:
        print("CHECKER-ERROR %s: %s" % (e['contract'], e['error']))
    for v in vacuous:
        print("CHECKER-ERROR vacuous contract (no reachable path): %s" % v['contract'])
    for u in undecided:
        print("UNDECIDED %s: %s" % (u.get('obligation') or u.get('contract'), u['reason']))
    done_k = set()
    for k in known_hits:
        key = k['finding']['obligation']
        if key in done_k:
            continue
        done_k.add(key)
        print("KNOWN-FINDING: property=%s %s" % (prop, k['finding']['what']))
    for v in violations:
        print("VIOLATION property=%s replay=%s%s" % (prop, v['replay'], '' if v['reproduced'] else ' no-failing-input-found'))
        print("   obligation %s (%s)" % (v['obligation'], v['backend']))
    return status


def run_bounded(prop, repo, seed, tier):
    """evaluate the same contracts on concrete inputs against the real library (bounded stand-in)"""
    env = dict(os.environ)
    env['PYTHONPATH'] = HERE + os.pathsep + repo
    env['PYVC_REPO'] = repo
    n = 60 if tier == 'quick' else 600
    p = subprocess.run([VENV_PY, '-m', 'pyvc.replay', '--bounded', prop, '--n', str(n), '--seed', str(seed)],
                       capture_output=True, text=True, env=env, cwd=HERE, timeout=1800 if tier == 'quick' else 5400)   # C06's chord recursion: ~20 min at n=600
    try:
        return json.loads(p.stdout.strip().split('\n')[-1])
    except Exception:
        return {'error': (p.stdout + p.stderr)[-600:]}


if __name__ == '__main__':
    sys.exit(main())
