"""Index of the real source under <repo>/svgpathtools: parsed on every run."""
import ast
import hashlib
import os
import subprocess

REPO = [os.environ.get('PYVC_REPO', '/repo')]
PKG = 'svgpathtools'

_cache = {}


def repo_root():
    return REPO[0]


def set_repo(path):
    REPO[0] = path
    _cache.clear()


class ModuleSrc(object):
    def __init__(self, name, path):
        self.name = name
        self.path = path
        with open(path, 'r') as f:
            self.text = f.read()
        self.tree = ast.parse(self.text, filename=path)
        self.functions = {}      # qualname (within module) -> node
        self._index(self.tree.body, '')

    def _index(self, body, prefix):
        for node in body:
            if isinstance(node, (ast.FunctionDef, ast.ClassDef)):
                q = prefix + node.name
                if isinstance(node, ast.FunctionDef):
                    self.functions[q] = node
                self._index(node.body, q + '.')
            elif isinstance(node, (ast.If, ast.Try, ast.For, ast.While, ast.With)):
                for fld in ('body', 'orelse', 'finalbody'):
                    self._index(getattr(node, fld, []) or [], prefix)
                for h in getattr(node, 'handlers', []) or []:
                    self._index(h.body, prefix)

    def segment(self, node):
        return ast.get_source_segment(self.text, node) or ''

    def sha(self, qualname):
        node = self.functions.get(qualname)
        if node is None:
            return None
        # hash of the AST dump: insensitive to comments / blank lines / docstring-free layout
        body = [n for n in node.body]
        if body and isinstance(body[0], ast.Expr) and isinstance(getattr(body[0], 'value', None), ast.Constant) \
                and isinstance(body[0].value.value, str):
            body = body[1:]
        dump = ast.dump(node.args) + ''.join(ast.dump(n) for n in body)
        return hashlib.sha256(dump.encode()).hexdigest()[:16]


def module(name):
    """name like 'path', 'bezier'"""
    key = (REPO[0], name)
    if key not in _cache:
        p = os.path.join(REPO[0], PKG, name + '.py')
        if not os.path.exists(p):
            raise KeyError("no module %s under %s" % (name, REPO[0]))
        _cache[key] = ModuleSrc(name, p)
    return _cache[key]


def function_sha(qual):
    """qual like 'path.CubicBezier.point'"""
    mod, _, q = qual.partition('.')
    try:
        return module(mod).sha(q)
    except KeyError:
        return None


def repo_head():
    try:
        h = subprocess.run(['git', '-C', REPO[0], 'rev-parse', 'HEAD'], capture_output=True, text=True).stdout.strip()
        d = subprocess.run(['git', '-C', REPO[0], 'status', '--porcelain', '--', PKG], capture_output=True, text=True).stdout.strip()
        return {'head': h, 'dirty': bool(d)}
    except Exception as e:  # pragma: no cover
        return {'head': None, 'dirty': None, 'error': str(e)}
