"""Symbolic executor for the Python subset of DESIGN.md 1.2, working on the AST of the real
source.  One Interp instance per path (module top-levels are re-executed, so class-level
mutable defaults are fresh on every path)."""
import ast
from fractions import Fraction
import z3

from . import sym
from .sym import Re, Cx
from .explore import Unsupported, PathAbort
from . import source


# ------------------------------------------------------------------ runtime values

class Func(object):
    def __init__(self, node, module, closure, qualname, defaults, kwdefaults):
        self.node = node
        self.module = module
        self.closure = closure
        self.qualname = qualname
        self.defaults = defaults
        self.kwdefaults = kwdefaults
        self.is_generator = _has_yield(node)
        self.name = getattr(node, 'name', '<lambda>')

    def __repr__(self):
        return '<Func %s>' % self.qualname


class BoundMethod(object):
    def __init__(self, func, selfv):
        self.func = func
        self.selfv = selfv

    def __repr__(self):
        return '<BoundMethod %r>' % (self.func,)


class ClassV(object):
    def __init__(self, name, bases, attrs, qualname, is_exc=False):
        self.name = name
        self.bases = bases
        self.attrs = attrs
        self.qualname = qualname
        self.is_exc = is_exc

    def mro(self):
        out = [self]
        for b in self.bases:
            for c in b.mro():
                if c not in out:
                    out.append(c)
        return out

    def lookup(self, name):
        for c in self.mro():
            if name in c.attrs:
                return c.attrs[name]
        return _MISSING

    def issub(self, other):
        return other in self.mro()

    def __repr__(self):
        return '<class %s>' % self.qualname


class Obj(object):
    def __init__(self, cls):
        self.cls = cls
        self.attrs = {}

    def __repr__(self):
        return '<%s object %s>' % (self.cls.name, {k: v for k, v in self.attrs.items() if not k.startswith('__')})


class PropertyV(object):
    def __init__(self, fget, fset=None):
        self.fget = fget
        self.fset = fset


class Builtin(object):
    def __init__(self, name, fn, typ=None):
        self.name = name
        self.fn = fn          # fn(interp, args, kwargs)
        self.typ = typ        # for isinstance: predicate(value) or None

    def __repr__(self):
        return '<builtin %s>' % self.name


class Namespace(object):
    """module-like bag of attributes (numpy model, np.linalg, ...)"""
    def __init__(self, name, attrs):
        self.name = name
        self.attrs = attrs

    def __repr__(self):
        return '<namespace %s>' % self.name


class Opaque(object):
    """placeholder for something outside the modelled world; any use is Unsupported"""
    def __init__(self, name):
        self.name = name

    def __repr__(self):
        return '<opaque %s>' % self.name


class IterV(object):
    """iterator over a fully known list of items"""
    def __init__(self, items):
        self.items = list(items)
        self.pos = 0

    def rest(self):
        r = self.items[self.pos:]
        self.pos = len(self.items)
        return r


class Num(object):
    """a formatted number inside a token string"""
    __slots__ = ('v', 'spec')

    def __init__(self, v, spec=''):
        self.v = v
        self.spec = spec

    def __repr__(self):
        return 'Num(%r)' % (self.v,)


class TokStr(object):
    """string assembled from literal text and formatted values (DESIGN.md 1.7)"""
    def __init__(self, parts):
        out = []
        for p in parts:
            if isinstance(p, str):
                if not p:
                    continue
                if out and isinstance(out[-1], str):
                    out[-1] += p
                else:
                    out.append(p)
            else:
                out.append(p)
        self.parts = out

    def lower(self):
        return TokStr([p.lower() if isinstance(p, str) else p for p in self.parts])

    def upper(self):
        return TokStr([p.upper() if isinstance(p, str) else p for p in self.parts])

    def __repr__(self):
        return 'TokStr(%r)' % (self.parts,)


def tok_concat(a, b):
    pa = a.parts if isinstance(a, TokStr) else [a]
    pb = b.parts if isinstance(b, TokStr) else [b]
    return TokStr(pa + pb)


class Guarded(object):
    """list element that is present iff `guard` holds (if-merging, DESIGN.md 1.4)"""
    __slots__ = ('guard', 'value')

    def __init__(self, guard, value):
        self.guard = guard
        self.value = value

    def __repr__(self):
        return 'Guarded(%s, %r)' % (self.guard, self.value)


class HashV(object):
    """value of hash(x): an uninterpreted function of x (functional w.r.t. ==)"""
    def __init__(self, v):
        self.v = v


class NF(object):
    """non-finite numpy float (numpy arithmetic yields inf/nan with a warning where Python
    floats raise): kind in {'pinf', 'ninf', 'nan'}.  Only produced when a contract switches
    `numpy_floats` on for code whose operands are numpy scalars."""
    def __init__(self, kind):
        self.kind = kind

    def flipped(self):
        return NF({'pinf': 'ninf', 'ninf': 'pinf', 'nan': 'nan'}[self.kind])

    def __repr__(self):
        return 'NF(%s)' % self.kind


class _Missing(object):
    def __repr__(self):
        return '<missing>'


_MISSING = _Missing()
NotImplementedV = Opaque('NotImplemented')


class _Return(Exception):
    def __init__(self, value):
        self.value = value


class _Break(Exception):
    pass


class _Continue(Exception):
    pass


class PyRaise(Exception):
    """a Python exception raised by the interpreted program"""
    def __init__(self, exc):
        Exception.__init__(self, repr(exc))
        self.exc = exc


class Undefined(Exception):
    """a value outside the real-number model was produced (sqrt/log/acos outside the domain,
    numpy division by zero).  Its own outcome class: neither a return nor a Python exception."""


def _has_yield(node):
    if isinstance(node, ast.Lambda):
        return False
    todo = list(node.body)
    while todo:
        n = todo.pop()
        if isinstance(n, (ast.Yield, ast.YieldFrom)):
            return True
        if isinstance(n, (ast.FunctionDef, ast.Lambda, ast.ClassDef)):
            continue
        todo.extend(ast.iter_child_nodes(n))
    return False


class Env(object):
    __slots__ = ('vars', 'parent', 'module', 'globals_decl', 'func', 'yields')

    def __init__(self, vars, parent, module, func=None):
        self.vars = vars
        self.parent = parent
        self.module = module
        self.globals_decl = None
        self.func = func
        self.yields = None


class ModuleNS(object):
    def __init__(self, name):
        self.name = name
        self.vars = {}
        self.loaded = False
        self.unsupported_toplevel = []


# ------------------------------------------------------------------ interpreter

MAX_CALL_DEPTH = 60
MAX_LOOP_ITERS = 20000


class Interp(object):
    def __init__(self, ctx, summaries=None, global_overrides=None, loop_specs=None):
        from . import models
        self.ctx = ctx
        self.modules = {}
        self.builtins = models.make_builtins(self)
        self.models = models
        self.summaries = summaries or {}
        self.global_overrides = global_overrides or {}
        self.loop_specs = loop_specs or {}
        self.depth = 0
        self.inlined = set()
        self.summarised = set()
        self.warn_calls = 0
        self.steps = 0
        self.merge = False      # if-merging into guarded list elements (set by contracts)
        self.numpy_floats = False   # division by zero / log(0) yield inf/nan values instead of raising
        self.cuts = {}              # (function qualname, local name) -> hook(value, env) -> value

    # ---------------------------------------------------------- modules
    def module(self, name):
        m = self.modules.get(name)
        if m is None:
            m = ModuleNS(name)
            self.modules[name] = m
            self._load_module(m)
        return m

    def _load_module(self, m):
        src = source.module(m.name)
        m.src = src
        env = Env(m.vars, None, m)
        m.vars['__name__'] = source.PKG + '.' + m.name
        for st in src.tree.body:
            try:
                self.exec_stmt(st, env)
            except Unsupported as e:
                m.unsupported_toplevel.append((getattr(st, 'lineno', 0), str(e)))
        for k, v in self.global_overrides.items():
            mod, _, nm = k.partition('.')
            if mod == m.name:
                m.vars[nm] = v
        m.loaded = True

    def get_global(self, qual):
        """'path.CubicBezier' / 'bezier.split_bezier' / 'path.CubicBezier.point'"""
        parts = qual.split('.')
        m = self.module(parts[0])
        v = m.vars[parts[1]]
        for p in parts[2:]:
            v = self.getattr(v, p)
        return v

    # ---------------------------------------------------------- helpers
    def raise_py(self, clsname, *args):
        cls = self.builtins[clsname]
        o = Obj(cls)
        o.attrs['args'] = tuple(args)
        raise PyRaise(o)

    def truth(self, v):
        if isinstance(v, bool) or isinstance(v, z3.BoolRef):
            return v
        if v is None:
            return False
        if isinstance(v, (int, Fraction)):
            return v != 0
        if isinstance(v, (Re, Cx)):
            return sym.ne(v, 0)
        if isinstance(v, (str, list, tuple, dict, set, frozenset)):
            return len(v) > 0
        if isinstance(v, TokStr):
            return len(v.parts) > 0
        if isinstance(v, Obj):
            f = v.cls.lookup('__bool__')
            if f is not _MISSING:
                return self.truth(self.call(BoundMethod(f, v), [], {}))
            f = v.cls.lookup('__len__')
            if f is not _MISSING:
                return self.truth(self.call(BoundMethod(f, v), [], {}))
            return True
        if isinstance(v, sym.INF_T):
            return True
        if hasattr(v, 'pyvc_truth'):
            return v.pyvc_truth(self)
        return True

    def branch(self, v):
        t = self.truth(v)
        if isinstance(t, bool):
            return t
        return self.ctx.decide(t)

    # ---------------------------------------------------------- statements
    def exec_block(self, stmts, env):
        for st in stmts:
            self.exec_stmt(st, env)

    def exec_stmt(self, st, env):
        self.steps += 1
        m = getattr(self, 'st_' + type(st).__name__, None)
        if m is None:
            raise Unsupported("statement %s at line %s" % (type(st).__name__, getattr(st, 'lineno', '?')))
        return m(st, env)

    def st_Expr(self, st, env):
        if isinstance(st.value, ast.Constant) and isinstance(st.value.value, str):
            return  # docstring / string statement
        self.eval(st.value, env)

    def st_Pass(self, st, env):
        pass

    def st_Assign(self, st, env):
        v = self.eval(st.value, env)
        if self.cuts and env.func is not None and len(st.targets) == 1:
            tg = st.targets[0]
            key = None
            if isinstance(tg, ast.Name):
                key = tg.id
            elif isinstance(tg, ast.Attribute) and isinstance(tg.value, ast.Name):
                key = tg.value.id + '.' + tg.attr
            hook = self.cuts.get((env.func.qualname, key)) if key else None
            if hook is not None:
                v = hook(v, env)
        for tgt in st.targets:
            self.assign(tgt, v, env)

    def st_AnnAssign(self, st, env):
        if st.value is not None:
            self.assign(st.target, self.eval(st.value, env), env)

    def st_AugAssign(self, st, env):
        tgt = st.target
        if isinstance(tgt, ast.Name):
            cur = self.lookup(tgt.id, env)
            new = self.inplace(st.op, cur, self.eval(st.value, env))
            self.assign(tgt, new, env)
        elif isinstance(tgt, ast.Attribute):
            o = self.eval(tgt.value, env)
            cur = self.getattr(o, tgt.attr)
            new = self.inplace(st.op, cur, self.eval(st.value, env))
            self.setattr(o, tgt.attr, new)
        elif isinstance(tgt, ast.Subscript):
            o = self.eval(tgt.value, env)
            idx = self.eval_index(tgt.slice, env)
            cur = self.getitem(o, idx)
            new = self.inplace(st.op, cur, self.eval(st.value, env))
            self.setitem(o, idx, new)
        else:
            raise Unsupported("augmented assignment target")

    def inplace(self, op, cur, val):
        if isinstance(op, ast.Add) and isinstance(cur, list):
            cur.extend(self.iterate(val))   # list += iterable mutates in place
            return cur
        if isinstance(cur, Obj):
            nm = {'Add': '__iadd__'}.get(type(op).__name__)
            if nm:
                f = cur.cls.lookup(nm)
                if f is not _MISSING:
                    return self.call(BoundMethod(f, cur), [val], {})
        return self.binop(op, cur, val)

    def st_Return(self, st, env):
        raise _Return(self.eval(st.value, env) if st.value is not None else None)

    def st_If(self, st, env):
        cond = self.truth(self.eval(st.test, env))
        if not isinstance(cond, bool) and self.merge and not st.orelse and len(st.body) == 1:
            b = st.body[0]
            if (isinstance(b, ast.Expr) and isinstance(b.value, ast.Call) and isinstance(b.value.func, ast.Attribute)
                    and b.value.func.attr == 'append' and len(b.value.args) == 1 and not b.value.keywords
                    and (isinstance(b.value.args[0], (ast.Name, ast.Constant)) or self.merge == 'speculate')
                    and isinstance(b.value.func.value, ast.Name)):
                lst = self.eval(b.value.func.value, env)
                if isinstance(lst, list):
                    # 'speculate': the appended expression is evaluated whether or not the guard
                    # holds (chosen by a contract whose callee is total and pure); if that
                    # evaluation raises, fall back to forking on the guard
                    try:
                        val = self.eval(b.value.args[0], env)
                    except (PyRaise, Undefined):
                        if self.merge != 'speculate':
                            raise
                        val = None
                    if val is not None:
                        lst.append(Guarded(cond, val))
                        return
        if cond if isinstance(cond, bool) else self.ctx.decide(cond):
            self.exec_block(st.body, env)
        else:
            self.exec_block(st.orelse, env)

    def st_Assert(self, st, env):
        if not self.branch(self.eval(st.test, env)):
            self.raise_py('AssertionError')

    def st_Raise(self, st, env):
        if st.exc is None:
            cur = getattr(self, '_cur_exc', None)
            if cur is None:
                self.raise_py('RuntimeError', 'No active exception to reraise')
            raise PyRaise(cur)
        v = self.eval(st.exc, env)
        if isinstance(v, ClassV):
            v = self.call(v, [], {})
        if not isinstance(v, Obj):
            raise Unsupported("raise of a non-exception value %r" % (v,))
        raise PyRaise(v)

    def st_Global(self, st, env):
        if env.globals_decl is None:
            env.globals_decl = set()
        env.globals_decl.update(st.names)

    def st_Nonlocal(self, st, env):
        raise Unsupported("nonlocal")

    def st_Import(self, st, env):
        for a in st.names:
            v = self.models.import_module(self, a.name)
            name = a.asname or a.name.split('.')[0]
            if a.asname is None and '.' in a.name:
                v = self.models.import_module(self, a.name.split('.')[0])
            self.bind(name, v, env)

    def st_ImportFrom(self, st, env):
        if st.module == '__future__':
            return
        if st.level and st.level > 0:
            modname = st.module
            for a in st.names:
                try:
                    source.module(modname)
                except KeyError:
                    self.bind(a.asname or a.name, Opaque('%s.%s' % (modname, a.name)), env)
                    continue
                if modname in ('paths2svg', 'document', 'svg_io_sax') and env.module.name not in ('document', 'svg_io_sax', 'nothing'):
                    # I/O modules: not loaded on behalf of geometry modules
                    self.bind(a.asname or a.name, Opaque('%s.%s' % (modname, a.name)), env)
                    continue
                m = self.module(modname)
                if a.name not in m.vars:
                    if not m.loaded:
                        # circular import in progress
                        self.bind(a.asname or a.name, Opaque('%s.%s' % (modname, a.name)), env)
                        continue
                    self.raise_py('ImportError', a.name)
                self.bind(a.asname or a.name, m.vars[a.name], env)
            return
        modv = self.models.import_module(self, st.module)
        for a in st.names:
            try:
                v = self.getattr(modv, a.name)
            except (PyRaise, Unsupported):
                if isinstance(modv, Opaque):
                    v = Opaque('%s.%s' % (st.module, a.name))
                else:
                    # a name the MODEL of an external library lacks says nothing about the
                    # library: undecided, never an ImportError of the code under verification
                    raise Unsupported("%s.%s is not modelled" % (st.module, a.name))
            self.bind(a.asname or a.name, v, env)

    def st_FunctionDef(self, st, env):
        f = self.make_func(st, env)
        for dec in reversed(st.decorator_list):
            f = self.apply_decorator(dec, f, env)
        self.bind(st.name, f, env)

    def apply_decorator(self, dec, f, env):
        if isinstance(dec, ast.Name) and dec.id == 'property':
            return PropertyV(f)
        if isinstance(dec, ast.Name) and dec.id == 'staticmethod':
            f.static = True
            return f
        if isinstance(dec, ast.Attribute) and dec.attr == 'setter':
            prop = self.eval(dec.value, env)
            if isinstance(prop, PropertyV):
                return PropertyV(prop.fget, f)
        raise Unsupported("decorator %s" % ast.dump(dec))

    def make_func(self, node, env):
        a = node.args
        defaults = [self.eval(d, env) for d in a.defaults]
        kwdefaults = [None if d is None else self.eval(d, env) for d in a.kw_defaults]
        name = getattr(node, 'name', '<lambda>')
        if env.func is not None:
            qual = env.func.qualname + '.' + name
        else:
            prefix = getattr(env, '_class_prefix', None)
            qual = env.module.name + '.' + name
        closure = env if env.parent is not None or env.func is not None else None
        return Func(node, env.module, closure, qual, defaults, kwdefaults)

    def st_ClassDef(self, st, env):
        bases = []
        for b in st.bases:
            bv = self.eval(b, env)
            if isinstance(bv, ClassV):
                bases.append(bv)
            elif isinstance(bv, Builtin) and bv.name in ('object',):
                pass
            elif isinstance(bv, Builtin) and bv.name == 'list':
                bases.append(self.models.list_class(self))
            else:
                raise Unsupported("base class %r of %s" % (bv, st.name))
        attrs = {}
        cenv = Env(attrs, None, env.module)
        cenv.func = None
        qual = env.module.name + '.' + st.name
        cls = ClassV(st.name, bases, attrs, qual, is_exc=any(b.is_exc for b in bases))
        for s in st.body:
            if isinstance(s, ast.FunctionDef):
                f = Func(s, env.module, None, qual + '.' + s.name,
                         [self.eval(d, env) for d in s.args.defaults],
                         [None if d is None else self.eval(d, env) for d in s.args.kw_defaults])
                for dec in reversed(s.decorator_list):
                    f = self.apply_decorator(dec, f, cenv_with_globals(cenv, env))
                attrs[s.name] = f
            else:
                self.exec_stmt(s, cenv_with_globals(cenv, env))
        self.bind(st.name, cls, env)

    def st_For(self, st, env):
        spec = self._loop_spec(st, env)
        if spec is not None:
            return spec(self, st, env)
        items = self.iterate(self.eval(st.iter, env))
        broke = False
        n = 0
        for it in items:
            n += 1
            if n > MAX_LOOP_ITERS:
                raise Unsupported("loop bound exceeded")
            self.assign(st.target, it, env)
            try:
                self.exec_block(st.body, env)
            except _Break:
                broke = True
                break
            except _Continue:
                continue
        if not broke:
            self.exec_block(st.orelse, env)

    def st_While(self, st, env):
        spec = self._loop_spec(st, env)
        if spec is not None:
            return spec(self, st, env)
        n = 0
        broke = False
        while self.branch(self.eval(st.test, env)):
            n += 1
            if n > MAX_LOOP_ITERS:
                raise Unsupported("loop bound exceeded")
            try:
                self.exec_block(st.body, env)
            except _Break:
                broke = True
                break
            except _Continue:
                continue
        if not broke:
            self.exec_block(st.orelse, env)

    def _loop_spec(self, st, env):
        if not self.loop_specs or env.func is None:
            return None
        key = (env.func.qualname, loop_ordinal(env.func.node, st))
        return self.loop_specs.get(key)

    def st_Break(self, st, env):
        raise _Break()

    def st_Continue(self, st, env):
        raise _Continue()

    def st_Delete(self, st, env):
        for t in st.targets:
            if isinstance(t, ast.Subscript):
                o = self.eval(t.value, env)
                idx = self.eval_index(t.slice, env)
                self.delitem(o, idx)
            elif isinstance(t, ast.Name):
                env.vars.pop(t.id, None)
            else:
                raise Unsupported("del target")

    def st_Try(self, st, env):
        try:
            try:
                self.exec_block(st.body, env)
            except PyRaise as pr:
                handled = False
                for h in st.handlers:
                    if self.exc_matches(pr.exc, h, env):
                        handled = True
                        if h.name:
                            env.vars[h.name] = pr.exc
                        saved = getattr(self, '_cur_exc', None)
                        self._cur_exc = pr.exc
                        try:
                            self.exec_block(h.body, env)
                        finally:
                            self._cur_exc = saved
                        break
                if not handled:
                    raise
            except Undefined as u:
                # numpy would have produced nan/inf (or raised FloatingPointError under
                # np.seterr(invalid='raise')); handlers that catch FloatingPointError or
                # everything take it.
                handled = False
                for h in st.handlers:
                    if h.type is None or self._handler_names(h, env) & {'FloatingPointError', 'Exception', 'ArithmeticError'}:
                        handled = True
                        self.exec_block(h.body, env)
                        break
                if not handled:
                    raise
            else:
                self.exec_block(st.orelse, env)
        finally:
            if st.finalbody:
                self.exec_block(st.finalbody, env)

    def _handler_names(self, h, env):
        t = self.eval(h.type, env)
        ts = t if isinstance(t, tuple) else (t,)
        return set(getattr(x, 'name', '') for x in ts)

    def exc_matches(self, exc, h, env):
        if h.type is None:
            return True
        t = self.eval(h.type, env)
        ts = t if isinstance(t, tuple) else (t,)
        for c in ts:
            if isinstance(c, ClassV) and exc.cls.issub(c):
                return True
        return False

    def st_With(self, st, env):
        raise Unsupported("with statement")

    # ---------------------------------------------------------- binding
    def bind(self, name, v, env):
        if env.globals_decl and name in env.globals_decl:
            env.module.vars[name] = v
        else:
            env.vars[name] = v

    def lookup(self, name, env):
        e = env
        while e is not None:
            if name in e.vars:
                return e.vars[name]
            e = e.parent
        mv = env.module.vars
        if name in mv:
            return mv[name]
        if name in self.builtins:
            return self.builtins[name]
        import builtins as _pyb
        if hasattr(_pyb, name):
            raise Unsupported("builtin %s is not modelled" % name)
        self.raise_py('NameError', name)

    def assign(self, tgt, v, env):
        if isinstance(tgt, ast.Name):
            self.bind(tgt.id, v, env)
        elif isinstance(tgt, (ast.Tuple, ast.List)):
            items = self.iterate(v)
            star = [i for i, e in enumerate(tgt.elts) if isinstance(e, ast.Starred)]
            if star:
                raise Unsupported("starred assignment")
            if len(items) != len(tgt.elts):
                self.raise_py('ValueError', 'unpack: expected %d values, got %d' % (len(tgt.elts), len(items)))
            for e, x in zip(tgt.elts, items):
                self.assign(e, x, env)
        elif isinstance(tgt, ast.Attribute):
            self.setattr(self.eval(tgt.value, env), tgt.attr, v)
        elif isinstance(tgt, ast.Subscript):
            o = self.eval(tgt.value, env)
            self.setitem(o, self.eval_index(tgt.slice, env), v)
        else:
            raise Unsupported("assignment target %s" % type(tgt).__name__)

    # ---------------------------------------------------------- expressions
    def eval(self, node, env):
        m = getattr(self, 'ex_' + type(node).__name__, None)
        if m is None:
            raise Unsupported("expression %s at line %s" % (type(node).__name__, getattr(node, 'lineno', '?')))
        return m(node, env)

    def ex_Constant(self, node, env):
        v = node.value
        if isinstance(v, bool) or v is None or isinstance(v, (int, str)):
            return v
        if isinstance(v, float):
            if v == float('inf'):
                return sym.INF
            return Fraction(repr(v))
        if isinstance(v, complex):
            return Cx(sym.conc_of(v.real) if v.real else 0, Fraction(repr(v.imag)) if v.imag != int(v.imag) else int(v.imag))
        if v is Ellipsis:
            raise Unsupported("Ellipsis")
        if isinstance(v, bytes):
            return v
        raise Unsupported("constant %r" % (v,))

    def ex_Name(self, node, env):
        return self.lookup(node.id, env)

    def ex_Tuple(self, node, env):
        return tuple(self._elts(node.elts, env))

    def ex_List(self, node, env):
        return list(self._elts(node.elts, env))

    def ex_Set(self, node, env):
        return set(self._elts(node.elts, env))

    def _elts(self, elts, env):
        out = []
        for e in elts:
            if isinstance(e, ast.Starred):
                out.extend(self.iterate(self.eval(e.value, env)))
            else:
                out.append(self.eval(e, env))
        return out

    def ex_Dict(self, node, env):
        d = {}
        for k, v in zip(node.keys, node.values):
            if k is None:
                d.update(self.eval(v, env))
            else:
                d[self.eval(k, env)] = self.eval(v, env)
        return d

    def ex_Attribute(self, node, env):
        return self.getattr(self.eval(node.value, env), node.attr)

    def ex_Subscript(self, node, env):
        o = self.eval(node.value, env)
        return self.getitem(o, self.eval_index(node.slice, env))

    def eval_index(self, sl, env):
        if isinstance(sl, ast.Slice):
            return slice(None if sl.lower is None else self.eval(sl.lower, env),
                         None if sl.upper is None else self.eval(sl.upper, env),
                         None if sl.step is None else self.eval(sl.step, env))
        if isinstance(sl, ast.Tuple):
            return tuple(self.eval_index(e, env) for e in sl.elts)
        return self.eval(sl, env)

    def ex_Slice(self, node, env):
        return self.eval_index(node, env)

    def ex_UnaryOp(self, node, env):
        v = self.eval(node.operand, env)
        if isinstance(node.op, ast.Not):
            return sym.Not(self.truth(v))
        if isinstance(node.op, ast.USub):
            return self.neg(v)
        if isinstance(node.op, ast.UAdd):
            return v
        raise Unsupported("unary operator")

    def neg(self, v):
        if isinstance(v, NF):
            return v.flipped()
        if isinstance(v, bool):
            return -int(v)
        if isinstance(v, (int, Fraction, Re, Cx, sym.INF_T)):
            return -v if not isinstance(v, (Re, Cx)) else sym.neg(v)
        if hasattr(v, 'pyvc_neg'):
            return v.pyvc_neg(self)
        raise Unsupported("negation of %r" % (v,))

    def ex_BinOp(self, node, env):
        a = self.eval(node.left, env)
        b = self.eval(node.right, env)
        return self.binop(node.op, a, b)

    def ex_BoolOp(self, node, env):
        is_and = isinstance(node.op, ast.And)
        v = None
        for i, e in enumerate(node.values):
            v = self.eval(e, env)
            if i == len(node.values) - 1:
                return v
            t = self.branch(v)
            if is_and and not t:
                return v if not isinstance(v, z3.BoolRef) else False
            if not is_and and t:
                return v if not isinstance(v, z3.BoolRef) else True
        return v

    def ex_Compare(self, node, env):
        left = self.eval(node.left, env)
        result = True
        n = len(node.ops)
        if n > 1 and all(isinstance(x, (ast.Name, ast.Constant)) or (isinstance(x, ast.UnaryOp) and isinstance(x.operand, ast.Constant))
                         for x in node.comparators):
            # chained comparison of names/constants: no evaluation can be skipped observably,
            # so the conjunction needs no fork
            parts = []
            for op, rn in zip(node.ops, node.comparators):
                right = self.eval(rn, env)
                parts.append(self.compare(op, left, right))
                left = right
            if all(isinstance(x, (bool, z3.BoolRef)) for x in parts):
                return sym.And(*parts)
            left = self.eval(node.left, env)
        for i, (op, rn) in enumerate(zip(node.ops, node.comparators)):
            right = self.eval(rn, env)
            r = self.compare(op, left, right)
            if n == 1:
                return r
            if i == n - 1:
                return r
            if not self.branch(r):
                return False
            left = right
        return result

    def ex_IfExp(self, node, env):
        if self.branch(self.eval(node.test, env)):
            return self.eval(node.body, env)
        return self.eval(node.orelse, env)

    def ex_Lambda(self, node, env):
        return self.make_func(node, env)

    def ex_Call(self, node, env):
        f = self.eval(node.func, env)
        args = []
        for a in node.args:
            if isinstance(a, ast.Starred):
                args.extend(self.iterate(self.eval(a.value, env)))
            else:
                args.append(self.eval(a, env))
        kwargs = {}
        for k in node.keywords:
            if k.arg is None:
                d = self.eval(k.value, env)
                if not isinstance(d, dict):
                    raise Unsupported("** of non-dict")
                kwargs.update(d)
            else:
                kwargs[k.arg] = self.eval(k.value, env)
        return self.call(f, args, kwargs)

    def _emit_to(self, out, node):
        def emit(e, guard):
            v = self.eval(node.elt, e)
            out.append(v if guard is True else Guarded(guard, v))
        return emit

    def ex_ListComp(self, node, env):
        out = []
        self._comp(node.generators, 0, Env({}, env, env.module, env.func), self._emit_to(out, node), True, node.elt)
        return out

    def ex_GeneratorExp(self, node, env):
        out = []
        self._comp(node.generators, 0, Env({}, env, env.module, env.func), self._emit_to(out, node), True, node.elt)
        return IterV(out)

    def ex_SetComp(self, node, env):
        out = []
        self._comp(node.generators, 0, Env({}, env, env.module, env.func), self._emit_to(out, node))
        return self.models.make_set(self, out)

    def ex_DictComp(self, node, env):
        out = {}

        def put(e, guard):
            out[self.eval(node.key, e)] = self.eval(node.value, e)
        self._comp(node.generators, 0, Env({}, env, env.module, env.func), put)
        return out

    def _comp(self, gens, i, env, emit, guard=True, elt=None):
        if i == len(gens):
            emit(env, guard)
            return
        g = gens[i]
        pure_elt = elt is not None and (isinstance(elt, ast.Name) or (isinstance(elt, ast.Attribute) and isinstance(elt.value, ast.Name)))
        for it in self.iterate(self.eval(g.iter, env), allow_guarded=True):
            gd = guard
            if isinstance(it, Guarded):
                if not (self.merge is True and pure_elt and i == len(gens) - 1):
                    raise Unsupported("iteration over a guarded list outside a mergeable comprehension")
                gd = sym.And(gd, it.guard)
                it = it.value
            self.assign(g.target, it, env)
            ok = True
            for c in g.ifs:
                t = self.truth(self.eval(c, env))
                if isinstance(t, bool):
                    if not t:
                        ok = False
                        break
                elif self.merge is True and pure_elt and i == len(gens) - 1:
                    gd = sym.And(gd, t)
                elif not self.ctx.decide(t):
                    ok = False
                    break
            if ok:
                self._comp(gens, i + 1, env, emit, gd, elt)

    def ex_Yield(self, node, env):
        e = env
        while e is not None and e.yields is None:
            e = e.parent
        if e is None:
            raise Unsupported("yield outside generator")
        e.yields.append(self.eval(node.value, env) if node.value is not None else None)
        return None

    def ex_JoinedStr(self, node, env):
        parts = []
        for v in node.values:
            if isinstance(v, ast.Constant):
                parts.append(v.value)
            else:
                parts.append(self.models.fmt_value(self, self.eval(v.value, env)))
        return self.models.tok_norm(TokStr(parts))

    def ex_Starred(self, node, env):
        raise Unsupported("starred expression")

    # ---------------------------------------------------------- operators
    def binop(self, op, a, b):
        opn = type(op).__name__
        # booleans are ints
        if isinstance(a, bool):
            a = int(a)
        if isinstance(b, bool):
            b = int(b)
        if isinstance(a, z3.BoolRef):
            a = sym.If(a, 1, 0)
        if isinstance(b, z3.BoolRef):
            b = sym.If(b, 1, 0)
        if isinstance(a, NF) or isinstance(b, NF):
            return self.nf_binop(opn, a, b)
        na = isinstance(a, (int, Fraction, Re, Cx))
        nb = isinstance(b, (int, Fraction, Re, Cx))
        if na and nb:
            if opn == 'Div' and self.numpy_floats and not isinstance(a, Cx) and not isinstance(b, Cx):
                z = sym.eq(b, 0)
                if (z is True) or (not isinstance(z, bool) and self.ctx.decide(z)):
                    return self.nf_signed(a)
                return sym.div(a, b)
            return self.num_binop(opn, a, b)
        if isinstance(a, sym.INF_T) or isinstance(b, sym.INF_T):
            raise Unsupported("arithmetic on infinity")
        for x, y, refl in ((a, b, False), (b, a, True)):
            if hasattr(x, 'pyvc_binop'):
                r = x.pyvc_binop(self, opn, y, refl)
                if r is not NotImplemented:
                    return r
        if opn == 'Add':
            if isinstance(a, list) and isinstance(b, list):
                return a + b
            if isinstance(a, tuple) and isinstance(b, tuple):
                return a + b
            if isinstance(a, (str, TokStr)) and isinstance(b, (str, TokStr)):
                if isinstance(a, str) and isinstance(b, str):
                    return a + b
                return tok_concat(a, b)
            if isinstance(a, list) or isinstance(b, list):
                self.raise_py('TypeError', 'can only concatenate list to list')
        if opn == 'Mult':
            for x, y in ((a, b), (b, a)):
                if isinstance(x, (list, tuple, str)) and isinstance(y, int):
                    return x * y
        if opn == 'Mod' and isinstance(a, str):
            return self.models.percent_format(self, a, b)
        if isinstance(a, Obj) or isinstance(b, Obj):
            nm = {'Add': 'add', 'Sub': 'sub', 'Mult': 'mul', 'Div': 'truediv'}.get(opn)
            if nm and isinstance(a, Obj):
                f = a.cls.lookup('__%s__' % nm)
                if f is not _MISSING:
                    return self.call(BoundMethod(f, a), [b], {})
            if nm and isinstance(b, Obj):
                f = b.cls.lookup('__r%s__' % nm)
                if f is not _MISSING:
                    return self.call(BoundMethod(f, b), [a], {})
        if a is None or b is None:
            self.raise_py('TypeError', "unsupported operand type(s) for %s: %s and %s" % (opn, _tn(a), _tn(b)))
        raise Unsupported("binary %s on %s and %s" % (opn, _tn(a), _tn(b)))

    def _sign(self, x):
        """-1, 0 or 1 for a real x (forks on symbolic values)"""
        if isinstance(x, (int, Fraction)):
            return (x > 0) - (x < 0)
        if self.ctx.decide(sym.lt(0, x)):
            return 1
        if self.ctx.decide(sym.lt(x, 0)):
            return -1
        return 0

    def nf_signed(self, x, flip=False):
        """x * inf"""
        sg = self._sign(x)
        if flip:
            sg = -sg
        return NF('pinf' if sg > 0 else ('ninf' if sg < 0 else 'nan'))

    def nf_binop(self, opn, a, b):
        an, bn = isinstance(a, NF), isinstance(b, NF)
        if (an and a.kind == 'nan') or (bn and b.kind == 'nan'):
            return NF('nan')
        if opn in ('Add', 'Sub'):
            if bn and opn == 'Sub':
                b = b.flipped()
            if an and bn:
                return a if a.kind == b.kind else NF('nan')
            return a if an else b
        if opn == 'Mult':
            if an and bn:
                return NF('pinf' if a.kind == b.kind else 'ninf')
            nf, x = (a, b) if an else (b, a)
            return self.nf_signed(x, flip=(nf.kind == 'ninf'))
        if opn == 'Div':
            if an and bn:
                return NF('nan')
            if bn:
                return 0
            sg = self._sign(b)
            if sg == 0:
                return a
            return a if sg > 0 else a.flipped()
        raise Unsupported("operator %s on a non-finite value" % opn)

    def num_binop(self, opn, a, b):
        if opn == 'Add':
            return sym.add(a, b)
        if opn == 'Sub':
            return sym.sub(a, b)
        if opn == 'Mult':
            return sym.mul(a, b)
        if opn == 'Div':
            self.check_nonzero(b)
            return sym.div(a, b)
        if opn == 'Pow':
            return self.power(a, b)
        if opn == 'FloorDiv':
            if isinstance(a, int) and isinstance(b, int):
                if b == 0:
                    self.raise_py('ZeroDivisionError', 'integer division or modulo by zero')
                return a // b
            if isinstance(a, (int, Fraction)) and isinstance(b, (int, Fraction)):
                if b == 0:
                    self.raise_py('ZeroDivisionError', 'float floor division by zero')
                return Fraction(a // b)
            if sym._both_int(a, b) and isinstance(b, int) and b > 0:
                return Re(sym.zterm(a) / sym.zterm(b))
            raise Unsupported("floor division of symbolic values")
        if opn == 'Mod':
            if isinstance(a, int) and isinstance(b, int):
                if b == 0:
                    self.raise_py('ZeroDivisionError', 'integer division or modulo by zero')
                return a % b
            if isinstance(a, (int, Fraction)) and isinstance(b, (int, Fraction)):
                return a % b
            if sym._both_int(a, b) and isinstance(b, int) and b > 0:
                return Re(sym.zterm(a) % sym.zterm(b))
            if isinstance(a, Re) and isinstance(b, (int, Fraction)) and b > 0:
                # real modulo by a positive constant: a == b*k + r with an integer k, 0 <= r < b
                k = self.ctx.fresh_int('quot')
                r = sym.sub(a, sym.mul(b, k))
                self.ctx.fact(sym.zbool(sym.And(sym.le(0, r), sym.lt(r, b))))
                return r
            raise Unsupported("modulo of symbolic values")
        raise Unsupported("numeric operator %s" % opn)

    def check_nonzero(self, b):
        z = sym.eq(b, 0)
        if isinstance(z, bool):
            if z:
                self.raise_py('ZeroDivisionError', 'division by zero')
            return
        if self.ctx.decide(z):
            self.raise_py('ZeroDivisionError', 'division by zero')

    def power(self, a, b):
        if isinstance(b, Fraction) and b.denominator == 1:
            b = int(b)
        if isinstance(b, int):
            if b < 0:
                self.check_nonzero(a)
            return sym.pw(a, b)
        if isinstance(b, Fraction) and b.denominator == 2 and not isinstance(a, Cx):
            # x ** (k/2) = sqrt(x) ** k
            r = self.models.real_sqrt(self, a)
            if b.numerator < 0:
                self.check_nonzero(r)
            return sym.pw(r, b.numerator)
        if isinstance(b, Re) and z3.is_int(b.t):
            return self.models.sym_pow(self, a, b)
        raise Unsupported("power with exponent %r" % (b,))

    def compare(self, op, a, b):
        opn = type(op).__name__
        if opn == 'Eq':
            return self.py_eq(a, b)
        if opn == 'NotEq':
            return self.py_ne(a, b)
        if opn == 'Is':
            return self.py_is(a, b)
        if opn == 'IsNot':
            return not self.py_is(a, b)
        if opn == 'In':
            return self.contains(b, a)
        if opn == 'NotIn':
            return sym.Not(self.contains(b, a))
        if isinstance(a, bool):
            a = int(a)
        if isinstance(b, bool):
            b = int(b)
        if isinstance(a, NF) or isinstance(b, NF):
            def rank(v):
                if isinstance(v, NF):
                    return {'pinf': 2, 'ninf': -2, 'nan': None}[v.kind]
                return 0
            ra, rb = rank(a), rank(b)
            if ra is None or rb is None:
                return False
            return {'Lt': ra < rb, 'LtE': ra <= rb, 'Gt': ra > rb, 'GtE': ra >= rb}[opn]
        num = (int, Fraction, Re, sym.INF_T)
        if isinstance(a, num) and isinstance(b, num):
            return {'Lt': sym.lt, 'LtE': sym.le, 'Gt': sym.gt, 'GtE': sym.ge}[opn](a, b)
        if isinstance(a, Cx) or isinstance(b, Cx):
            # numpy complex scalars order lexicographically; builtin complex raises TypeError
            ca, cb = sym.to_cx(a) if isinstance(a, (Cx, int, Fraction, Re)) else None, sym.to_cx(b) if isinstance(b, (Cx, int, Fraction, Re)) else None
            if ca is not None and cb is not None:
                za = sym.eq(ca.im, 0)
                zb = sym.eq(cb.im, 0)
                if za is True and zb is True:
                    return {'Lt': sym.lt, 'LtE': sym.le, 'Gt': sym.gt, 'GtE': sym.ge}[opn](ca.re, cb.re)
            self.raise_py('TypeError', "ordering of complex numbers")
        if isinstance(a, (tuple, list)) and isinstance(b, (tuple, list)):
            raise Unsupported("ordering comparison of sequences")
        if isinstance(a, str) and isinstance(b, str):
            return {'Lt': a < b, 'LtE': a <= b, 'Gt': a > b, 'GtE': a >= b}[opn]
        if a is None or b is None:
            self.raise_py('TypeError', "'%s' not supported between %s and %s" % (opn, _tn(a), _tn(b)))
        raise Unsupported("comparison %s of %s and %s" % (opn, _tn(a), _tn(b)))

    def py_is(self, a, b):
        if a is None or b is None:
            return a is b
        if isinstance(a, bool) and isinstance(b, bool):
            return a == b
        if isinstance(a, (Obj, list, dict, ClassV, Func, Builtin, Opaque)) or isinstance(b, (Obj, list, dict, ClassV, Func, Builtin, Opaque)):
            return a is b
        raise Unsupported("identity comparison of values (%s is %s)" % (_tn(a), _tn(b)))

    def py_eq(self, a, b):
        if isinstance(a, NF) or isinstance(b, NF):
            return isinstance(a, NF) and isinstance(b, NF) and a.kind == b.kind and a.kind != 'nan'
        if a is None or b is None:
            if isinstance(a, Obj) or isinstance(b, Obj):
                o = a if isinstance(a, Obj) else b
                other = b if o is a else a
                f = o.cls.lookup('__eq__')
                if f is not _MISSING:
                    r = self.call(BoundMethod(f, o), [other], {})
                    if r is NotImplementedV:
                        return False
                    return self.truth(r)
            return a is b
        if isinstance(a, (bool, z3.BoolRef)) and isinstance(b, (bool, z3.BoolRef)):
            return sym.Iff(a, b)
        num = (int, Fraction, Re, Cx, bool, sym.INF_T)
        if isinstance(a, num) and isinstance(b, num):
            return sym.eq(int(a) if isinstance(a, bool) else a, int(b) if isinstance(b, bool) else b)
        if isinstance(a, z3.BoolRef) and isinstance(b, num):
            return sym.eq(sym.If(a, 1, 0), b)
        if isinstance(b, z3.BoolRef) and isinstance(a, num):
            return sym.eq(a, sym.If(b, 1, 0))
        if isinstance(a, str) and isinstance(b, str):
            return a == b
        if isinstance(a, HashV) and isinstance(b, HashV):
            return self.models.hash_eq(self, a, b)
        if (isinstance(a, tuple) and isinstance(b, tuple)) or (isinstance(a, list) and isinstance(b, list)):
            if len(a) != len(b):
                return False
            return sym.And(*[sym.Or(x is y, self.truth(self.py_eq(x, y))) if isinstance(x, (Obj, list)) else self.truth(self.py_eq(x, y))
                             for x, y in zip(a, b)])
        if isinstance(a, Obj):
            f = a.cls.lookup('__eq__')
            if f is not _MISSING:
                r = self.call(BoundMethod(f, a), [b], {})
                if r is not NotImplementedV:
                    return self.truth(r)
            if isinstance(b, Obj):
                f = b.cls.lookup('__eq__')
                if f is not _MISSING:
                    r = self.call(BoundMethod(f, b), [a], {})
                    if r is not NotImplementedV:
                        return self.truth(r)
            return a is b
        if isinstance(b, Obj):
            return self.py_eq(b, a)
        for x, y in ((a, b), (b, a)):
            if hasattr(x, 'pyvc_eq'):
                r = x.pyvc_eq(self, y)
                if r is not NotImplemented:
                    return r
        if isinstance(a, (ClassV, Func, Builtin, Opaque, Namespace)) or isinstance(b, (ClassV, Func, Builtin, Opaque, Namespace)):
            return a is b
        if isinstance(a, (dict, set, frozenset)) and isinstance(b, type(a)):
            return a == b
        if type(a) != type(b):
            # values of unrelated builtin types compare unequal
            kinds = (str, tuple, list, dict, set, frozenset, TokStr)
            if isinstance(a, kinds + num) and isinstance(b, kinds + num):
                return False
        raise Unsupported("== between %s and %s" % (_tn(a), _tn(b)))

    def py_ne(self, a, b):
        if isinstance(a, Obj):
            f = a.cls.lookup('__ne__')
            if f is not _MISSING:
                r = self.call(BoundMethod(f, a), [b], {})
                if r is not NotImplementedV:
                    return self.truth(r)
        return sym.Not(self.py_eq(a, b))

    def contains(self, cont, x):
        if isinstance(cont, str):
            if not isinstance(x, str):
                self.raise_py('TypeError', "'in <string>' requires string as left operand, not %s" % _tn(x))
            return x in cont
        if isinstance(cont, (list, tuple)):
            terms = []
            for y in cont:
                if isinstance(y, Guarded):
                    terms.append(sym.And(y.guard, self.truth(self.py_eq(y.value, x))))
                elif isinstance(x, (Obj, list, dict)):
                    terms.append((x is y) or self.truth(self.py_eq(y, x)))
                else:
                    terms.append(self.truth(self.py_eq(y, x)))
            return sym.Or(*terms)
        if isinstance(cont, IterV):
            return self.contains(cont.rest(), x)
        if isinstance(cont, (set, frozenset, dict)):
            if isinstance(x, (Re, Cx)):
                raise Unsupported("symbolic value looked up in a set/dict")
            if isinstance(x, TokStr) or isinstance(x, Num):
                return False if all(isinstance(k, str) for k in cont) else _unsup("token in set")
            try:
                return x in cont
            except TypeError:
                self.raise_py('TypeError', 'unhashable')
        if isinstance(cont, Obj):
            f = cont.cls.lookup('__contains__')
            if f is not _MISSING:
                return self.truth(self.call(BoundMethod(f, cont), [x], {}))
            return self.contains(self.iterate(cont), x)
        if hasattr(cont, 'pyvc_contains'):
            return cont.pyvc_contains(self, x)
        raise Unsupported("'in' on %s" % _tn(cont))

    # ---------------------------------------------------------- attributes / items
    def getattr(self, o, name):
        if isinstance(o, Obj):
            if name in o.attrs:
                return o.attrs[name]
            v = o.cls.lookup(name)
            if v is not _MISSING:
                if isinstance(v, Func):
                    if getattr(v, 'static', False):
                        return v
                    return BoundMethod(v, o)
                if isinstance(v, PropertyV):
                    return self.call(v.fget, [o], {})
                if isinstance(v, Builtin) and getattr(v, 'is_method', False):
                    return BoundMethod(v, o)
                return v
            if name == '__class__':
                return o.cls
            if name == '__dict__':
                return o.attrs
            self.raise_py('AttributeError', "%s object has no attribute %s" % (o.cls.name, name))
        if isinstance(o, ClassV):
            v = o.lookup(name)
            if v is not _MISSING:
                return v
            if name == '__name__':
                return o.name
            self.raise_py('AttributeError', "class %s has no attribute %s" % (o.name, name))
        if isinstance(o, Namespace):
            if name in o.attrs:
                return o.attrs[name]
            raise Unsupported("%s.%s is not modelled" % (o.name, name))
        if isinstance(o, Opaque):
            raise Unsupported("attribute %s of opaque %s" % (name, o.name))
        return self.models.builtin_getattr(self, o, name)

    def setattr(self, o, name, v):
        if isinstance(o, Obj):
            p = o.cls.lookup(name)
            if isinstance(p, PropertyV):
                if p.fset is None:
                    self.raise_py('AttributeError', "can't set attribute")
                self.call(p.fset, [o, v], {})
                return
            o.attrs[name] = v
            return
        if isinstance(o, ClassV):
            o.attrs[name] = v
            return
        if hasattr(o, 'pyvc_setattr'):
            return o.pyvc_setattr(self, name, v)
        raise Unsupported("setattr on %s" % _tn(o))

    def getitem(self, o, idx):
        if isinstance(o, (list, tuple, str)):
            if isinstance(idx, slice):
                self._conc_slice(idx)
                return o[idx]
            if isinstance(idx, bool):
                idx = int(idx)
            if isinstance(idx, int):
                try:
                    return o[idx]
                except IndexError:
                    self.raise_py('IndexError', 'index out of range')
            if isinstance(idx, Re):
                raise Unsupported("symbolic index into a concrete sequence")
            self.raise_py('TypeError', 'indices must be integers, not %s' % _tn(idx))
        if isinstance(o, dict):
            if isinstance(idx, (Re, Cx)):
                raise Unsupported("symbolic dict key")
            try:
                return o[idx]
            except KeyError:
                self.raise_py('KeyError', idx)
        if isinstance(o, Obj):
            f = o.cls.lookup('__getitem__')
            if f is not _MISSING:
                return self.call(BoundMethod(f, o), [idx], {})
            self.raise_py('TypeError', 'object is not subscriptable')
        if hasattr(o, 'pyvc_getitem'):
            return o.pyvc_getitem(self, idx)
        if o is None:
            self.raise_py('TypeError', "'NoneType' object is not subscriptable")
        if isinstance(o, (int, Fraction, Re, Cx)):
            self.raise_py('TypeError', "number is not subscriptable")
        raise Unsupported("subscript of %s" % _tn(o))

    def _conc_slice(self, s):
        for x in (s.start, s.stop, s.step):
            if x is not None and not isinstance(x, int):
                raise Unsupported("non-concrete slice bound")

    def setitem(self, o, idx, v):
        if isinstance(o, list):
            if isinstance(idx, slice):
                self._conc_slice(idx)
                o[idx] = self.iterate(v)
                return
            if isinstance(idx, int):
                try:
                    o[idx] = v
                except IndexError:
                    self.raise_py('IndexError', 'list assignment index out of range')
                return
            raise Unsupported("symbolic list index in assignment")
        if isinstance(o, dict):
            if isinstance(idx, (Re, Cx)):
                raise Unsupported("symbolic dict key")
            o[idx] = v
            return
        if isinstance(o, Obj):
            f = o.cls.lookup('__setitem__')
            if f is not _MISSING:
                self.call(BoundMethod(f, o), [idx, v], {})
                return
        if hasattr(o, 'pyvc_setitem'):
            return o.pyvc_setitem(self, idx, v)
        if isinstance(o, tuple):
            self.raise_py('TypeError', "'tuple' object does not support item assignment")
        raise Unsupported("item assignment on %s" % _tn(o))

    def delitem(self, o, idx):
        if isinstance(o, list):
            if isinstance(idx, slice):
                self._conc_slice(idx)
                del o[idx]
                return
            if isinstance(idx, int):
                try:
                    del o[idx]
                except IndexError:
                    self.raise_py('IndexError', 'list assignment index out of range')
                return
            raise Unsupported("symbolic index in del")
        if isinstance(o, dict):
            try:
                del o[idx]
            except KeyError:
                self.raise_py('KeyError', idx)
            return
        if isinstance(o, Obj):
            f = o.cls.lookup('__delitem__')
            if f is not _MISSING:
                self.call(BoundMethod(f, o), [idx], {})
                return
        if hasattr(o, 'pyvc_delitem'):
            return o.pyvc_delitem(self, idx)
        raise Unsupported("del item on %s" % _tn(o))

    def iterate(self, v, allow_guarded=False):
        if isinstance(v, (list, tuple)):
            if not allow_guarded and any(isinstance(x, Guarded) for x in v):
                raise Unsupported("iteration over a guarded (if-merged) list")
            return list(v)
        if isinstance(v, IterV):
            r = v.rest()
            if not allow_guarded and any(isinstance(x, Guarded) for x in r):
                raise Unsupported("iteration over a guarded (if-merged) list")
            return r
        if isinstance(v, range):
            if len(v) > MAX_LOOP_ITERS:
                raise Unsupported("range too long")
            return list(v)
        if isinstance(v, dict):
            return list(v.keys())
        if isinstance(v, (set, frozenset)):
            try:
                return sorted(v)
            except TypeError:
                return list(v)
        if isinstance(v, str):
            return list(v)
        if isinstance(v, Obj):
            f = v.cls.lookup('__iter__')
            if f is not _MISSING:
                return self.iterate(self.call(BoundMethod(f, v), [], {}), allow_guarded)
            f = v.cls.lookup('__getitem__')
            if f is not _MISSING:
                out = []
                i = 0
                while True:
                    try:
                        out.append(self.call(BoundMethod(f, v), [i], {}))
                    except PyRaise as pr:
                        if pr.exc.cls.name == 'IndexError':
                            break
                        raise
                    i += 1
                    if i > MAX_LOOP_ITERS:
                        raise Unsupported("iteration bound")
                return out
        if hasattr(v, 'pyvc_iter'):
            return v.pyvc_iter(self)
        if v is None or isinstance(v, (int, Fraction, Re, Cx, bool)):
            self.raise_py('TypeError', '%s object is not iterable' % _tn(v))
        raise Unsupported("iteration over %s" % _tn(v))

    # ---------------------------------------------------------- calls
    def call(self, f, args, kwargs):
        if isinstance(f, BoundMethod):
            return self.call(f.func, [f.selfv] + list(args), kwargs)
        if isinstance(f, Builtin):
            return f.fn(self, list(args), kwargs)
        if isinstance(f, Func):
            return self.call_func(f, list(args), kwargs)
        if isinstance(f, ClassV):
            return self.instantiate(f, list(args), kwargs)
        if isinstance(f, Obj):
            c = f.cls.lookup('__call__')
            if c is not _MISSING:
                return self.call(BoundMethod(c, f), args, kwargs)
        if hasattr(f, 'pyvc_call'):
            return f.pyvc_call(self, list(args), kwargs)
        if isinstance(f, Opaque):
            raise Unsupported("call of opaque %s" % f.name)
        self.raise_py('TypeError', '%s object is not callable' % _tn(f))

    def instantiate(self, cls, args, kwargs):
        if cls.is_exc:
            o = Obj(cls)
            o.attrs['args'] = tuple(args)
            init = cls.lookup('__init__')
            if init is not _MISSING and isinstance(init, Func):
                self.call_func(init, [o] + args, kwargs)
            return o
        nat = cls.lookup('__pyvc_new__')
        o = nat(self, cls) if nat is not _MISSING else Obj(cls)
        init = cls.lookup('__init__')
        if init is not _MISSING:
            self.call(init, [o] + args, kwargs)
        elif args or kwargs:
            self.raise_py('TypeError', '%s() takes no arguments' % cls.name)
        return o

    def call_func(self, f, args, kwargs):
        s = self.summaries.get(f.qualname)
        if s is not None:
            self.summarised.add(f.qualname)
            return s(self, f, args, kwargs)
        if not f.qualname.endswith('<lambda>') and '<lambda>' not in f.qualname:
            self.inlined.add(f.qualname)
        return self.run_func(f, args, kwargs)

    def bind_args(self, f, args, kwargs):
        a = f.node.args
        params = [p.arg for p in getattr(a, 'posonlyargs', [])] + [p.arg for p in a.args]
        vars = {}
        n = len(params)
        if len(args) > n and a.vararg is None:
            self.raise_py('TypeError', '%s() takes %d positional arguments but %d were given' % (f.name, n, len(args)))
        for p, v in zip(params, args):
            vars[p] = v
        if a.vararg is not None:
            vars[a.vararg.arg] = tuple(args[n:])
        kwargs = dict(kwargs)
        for p in params[len(args):]:
            if p in kwargs:
                vars[p] = kwargs.pop(p)
        for p in params[:len(args)]:
            if p in kwargs:
                self.raise_py('TypeError', '%s() got multiple values for argument %s' % (f.name, p))
        nd = len(f.defaults)
        for i, p in enumerate(params):
            if p not in vars:
                j = i - (n - nd)
                if j >= 0:
                    vars[p] = f.defaults[j]
                else:
                    self.raise_py('TypeError', '%s() missing required argument %s' % (f.name, p))
        for p, d in zip(a.kwonlyargs, f.kwdefaults):
            if p.arg in kwargs:
                vars[p.arg] = kwargs.pop(p.arg)
            elif d is not None or True:
                vars[p.arg] = d
        if a.kwarg is not None:
            vars[a.kwarg.arg] = kwargs
        elif kwargs:
            self.raise_py('TypeError', '%s() got an unexpected keyword argument %s' % (f.name, sorted(kwargs)[0]))
        return vars

    def run_func(self, f, args, kwargs):
        vars = self.bind_args(f, args, kwargs)
        env = Env(vars, f.closure, f.module, f)
        self.depth += 1
        if self.depth > MAX_CALL_DEPTH:
            self.depth -= 1
            raise Unsupported("call depth exceeded in %s (recursion without a contract?)" % f.qualname)
        try:
            if isinstance(f.node, ast.Lambda):
                return self.eval(f.node.body, env)
            if f.is_generator:
                env.yields = []
                try:
                    self.exec_block(f.node.body, env)
                except _Return:
                    pass
                return IterV(env.yields)
            try:
                self.exec_block(f.node.body, env)
            except _Return as r:
                return r.value
            return None
        finally:
            self.depth -= 1


def cenv_with_globals(cenv, env):
    cenv.parent = None
    return cenv


def _unsup(msg):
    raise Unsupported(msg)


def _tn(v):
    if isinstance(v, Obj):
        return v.cls.name
    if v is None:
        return 'NoneType'
    return type(v).__name__


def loop_ordinal(funcnode, loopnode):
    """ordinal of a loop statement among the loops of a function, in source order (nested
    function bodies excluded)"""
    n = [0]
    found = [None]

    def walk(body):
        for s in body:
            if found[0] is not None:
                return
            if isinstance(s, (ast.For, ast.While)):
                if s is loopnode:
                    found[0] = n[0]
                    return
                n[0] += 1
            if isinstance(s, (ast.FunctionDef, ast.ClassDef)):
                continue
            for fld in ('body', 'orelse', 'finalbody'):
                walk(getattr(s, fld, []) or [])
            for h in getattr(s, 'handlers', []) or []:
                walk(h.body)
    walk(funcnode.body)
    return found[0]
