"""Symbolic number tower over z3 terms.

Python ints and Fractions stay concrete (constant folding keeps loop bounds, indices and
binomials concrete).  `Re` wraps a z3 arithmetic term (sort Real, or Int for symbolic counts),
`Cx` is a pair (re, im).  Floats are treated as mathematical reals (DESIGN.md 1.2): a float
literal denotes the decimal it was written as.

Two arithmetic modes:
  'real'  operators are the field operations of R (default)
  'euf'   operators are uninterpreted functions plus the few identities that hold bit-for-bit
          in IEEE-754 (DESIGN.md 1.8b); used for the "compares equal exactly" clauses.
"""
from fractions import Fraction
import z3

MODE = ['real']

# current path context (set by explore.py); used for fresh witnesses and side facts
CTX = [None]


def ctx():
    c = CTX[0]
    if c is None:
        raise RuntimeError("no active path context")
    return c


class INF_T(object):
    """+/- infinity as used by `np.inf` / float('inf') in comparisons only."""
    def __init__(self, sign=1):
        self.sign = sign

    def __neg__(self):
        return INF_T(-self.sign)

    def __repr__(self):
        return 'inf' if self.sign > 0 else '-inf'


INF = INF_T(1)


def is_conc(x):
    return isinstance(x, (int, Fraction)) and not isinstance(x, bool)


def conc_of(x):
    """normalise python numbers (bool/int/float/Fraction) to int/Fraction"""
    if isinstance(x, bool):
        return int(x)
    if isinstance(x, int):
        return x
    if isinstance(x, Fraction):
        return x
    if isinstance(x, float):
        if x != x or x in (float('inf'), float('-inf')):
            raise ValueError("non-finite float literal")
        return Fraction(repr(x))
    raise TypeError("not a concrete number: %r" % (x,))


def _norm(x):
    # ints stay ints, "floats" stay Fractions (isinstance(x, int) must keep its meaning)
    return x


def zreal(x):
    """z3 Real term of a concrete number or Re"""
    if isinstance(x, Re):
        t = x.t
        if z3.is_int(t):
            return z3.ToReal(t)
        return t
    x = conc_of(x)
    return z3.RealVal(str(x))


def zterm(x):
    """z3 term keeping Int sort where possible"""
    if isinstance(x, Re):
        return x.t
    x = conc_of(x)
    if isinstance(x, int):
        return z3.IntVal(x)
    return z3.RealVal(str(x))


def _both_int(a, b):
    def isint(v):
        if isinstance(v, Re):
            return z3.is_int(v.t)
        return isinstance(conc_of(v), int)
    return isint(a) and isint(b)


# uninterpreted operators for EUF mode
_R = z3.RealSort()
_fadd = z3.Function('fadd', _R, _R, _R)
_fsub = z3.Function('fsub', _R, _R, _R)
_fmul = z3.Function('fmul', _R, _R, _R)
_fdiv = z3.Function('fdiv', _R, _R, _R)
_fneg = z3.Function('fneg', _R, _R)


class Re(object):
    """symbolic real (or integer) number"""
    __slots__ = ('t',)

    def __init__(self, t):
        assert isinstance(t, z3.ArithRef), t
        self.t = t

    def __repr__(self):
        return 'Re(%s)' % self.t

    def __hash__(self):
        return self.t.get_id()

    def __bool__(self):
        raise TypeError("python-level truth value of a symbolic number requested")

    # arithmetic
    def __add__(self, o): return add(self, o)
    def __radd__(self, o): return add(o, self)
    def __sub__(self, o): return sub(self, o)
    def __rsub__(self, o): return sub(o, self)
    def __mul__(self, o): return mul(self, o)
    def __rmul__(self, o): return mul(o, self)
    def __truediv__(self, o): return div(self, o)
    def __rtruediv__(self, o): return div(o, self)
    def __neg__(self): return neg(self)
    def __pos__(self): return self
    def __pow__(self, k): return pw(self, k)
    def __abs__(self): return absv(self)
    def __lt__(self, o): return lt(self, o)
    def __le__(self, o): return le(self, o)
    def __gt__(self, o): return lt(o, self)
    def __ge__(self, o): return le(o, self)
    def __eq__(self, o): return eq(self, o)
    def __ne__(self, o): return Not(eq(self, o))

    @property
    def real(self): return self
    @property
    def imag(self): return 0


def is_num(x):
    return isinstance(x, (Re, Cx)) or (isinstance(x, (int, float, Fraction)) and not isinstance(x, bool))


def is_real(x):
    return isinstance(x, Re) or (isinstance(x, (int, float, Fraction, bool)))


class Cx(object):
    """complex number as a pair of reals (each a concrete number or Re)"""
    __slots__ = ('re', 'im')

    def __init__(self, re, im=0):
        self.re = re if isinstance(re, Re) else conc_of(re)
        self.im = im if isinstance(im, Re) else conc_of(im)

    def __repr__(self):
        return 'Cx(%r, %r)' % (self.re, self.im)

    def __hash__(self):
        return hash((self.re, self.im))

    def __bool__(self):
        raise TypeError("python-level truth value of a symbolic complex requested")

    @property
    def real(self): return self.re
    @property
    def imag(self): return self.im

    def is_concrete(self):
        return is_conc(self.re) and is_conc(self.im)

    def __add__(self, o): return add(self, o)
    def __radd__(self, o): return add(o, self)
    def __sub__(self, o): return sub(self, o)
    def __rsub__(self, o): return sub(o, self)
    def __mul__(self, o): return mul(self, o)
    def __rmul__(self, o): return mul(o, self)
    def __truediv__(self, o): return div(self, o)
    def __rtruediv__(self, o): return div(o, self)
    def __neg__(self): return neg(self)
    def __pos__(self): return self
    def __pow__(self, k): return pw(self, k)
    def __abs__(self): return absv(self)
    def __eq__(self, o): return eq(self, o)
    def __ne__(self, o): return Not(eq(self, o))

    def conjugate(self):
        return Cx(self.re, neg(self.im))


def _cparts(x):
    if isinstance(x, Cx):
        return x.re, x.im
    if isinstance(x, complex):
        return conc_of(x.real), conc_of(x.imag)
    return x, 0


def _is_cx(x):
    return isinstance(x, (Cx, complex))


def _wrap(t):
    return Re(t)


def _radd(a, b):
    if not isinstance(a, Re) and not isinstance(b, Re):
        return _norm(conc_of(a) + conc_of(b))
    if MODE[0] == 'euf':
        # x+0 == x holds exactly for finite doubles except -0.0+0 == 0.0 (== compares equal)
        if not isinstance(a, Re) and conc_of(a) == 0:
            return b
        if not isinstance(b, Re) and conc_of(b) == 0:
            return a
        ta, tb = zreal(a), zreal(b)
        # commutativity: canonical argument order
        if ta.get_id() > tb.get_id():
            ta, tb = tb, ta
        return Re(_fadd(ta, tb))
    if not isinstance(a, Re) and conc_of(a) == 0:
        return b
    if not isinstance(b, Re) and conc_of(b) == 0:
        return a
    if _both_int(a, b):
        return Re(zterm(a) + zterm(b))
    return Re(zreal(a) + zreal(b))


def _rsub(a, b):
    if not isinstance(a, Re) and not isinstance(b, Re):
        return _norm(conc_of(a) - conc_of(b))
    if MODE[0] == 'euf':
        if not isinstance(b, Re) and conc_of(b) == 0:
            return a
        return Re(_fsub(zreal(a), zreal(b)))
    if not isinstance(b, Re) and conc_of(b) == 0:
        return a
    if not isinstance(a, Re) and conc_of(a) == 0:
        return _rneg(b)
    if _both_int(a, b):
        return Re(zterm(a) - zterm(b))
    return Re(zreal(a) - zreal(b))


def _rneg(a):
    if not isinstance(a, Re):
        return _norm(-conc_of(a))
    if MODE[0] == 'euf':
        return Re(_fneg(zreal(a)))
    return Re(-a.t)


def _rmul(a, b):
    if not isinstance(a, Re) and not isinstance(b, Re):
        return _norm(conc_of(a) * conc_of(b))
    if MODE[0] == 'euf':
        # x*1 == x and x*0 == 0 hold under == for every finite double
        for u, v in ((a, b), (b, a)):
            if not isinstance(u, Re):
                if conc_of(u) == 1:
                    return v
                if conc_of(u) == 0:
                    return 0
        ta, tb = zreal(a), zreal(b)
        if ta.get_id() > tb.get_id():
            ta, tb = tb, ta
        return Re(_fmul(ta, tb))
    for u, v in ((a, b), (b, a)):
        if not isinstance(u, Re):
            cu = conc_of(u)
            if cu == 0:
                return 0
            if cu == 1:
                return v
    if _both_int(a, b):
        return Re(zterm(a) * zterm(b))
    return Re(zreal(a) * zreal(b))


def _rdiv(a, b):
    if not isinstance(a, Re) and not isinstance(b, Re):
        return Fraction(conc_of(a)) / Fraction(conc_of(b))
    if MODE[0] == 'euf':
        if not isinstance(b, Re) and conc_of(b) == 1:
            return a
        return Re(_fdiv(zreal(a), zreal(b)))
    if not isinstance(b, Re):
        cb = conc_of(b)
        if cb == 1:
            return a
        return Re(zreal(a) * zreal(Fraction(1) / Fraction(cb)))
    if not isinstance(a, Re) and conc_of(a) == 0:
        return 0
    return Re(zreal(a) / zreal(b))


def add(a, b):
    if _is_cx(a) or _is_cx(b):
        (ar, ai), (br, bi) = _cparts(a), _cparts(b)
        return Cx(_radd(ar, br), _radd(ai, bi))
    return _radd(a, b)


def sub(a, b):
    if _is_cx(a) or _is_cx(b):
        (ar, ai), (br, bi) = _cparts(a), _cparts(b)
        return Cx(_rsub(ar, br), _rsub(ai, bi))
    return _rsub(a, b)


def neg(a):
    if _is_cx(a):
        ar, ai = _cparts(a)
        return Cx(_rneg(ar), _rneg(ai))
    return _rneg(a)


def mul(a, b):
    ca, cb = _is_cx(a), _is_cx(b)
    if ca and cb:
        (ar, ai), (br, bi) = _cparts(a), _cparts(b)
        return Cx(_rsub(_rmul(ar, br), _rmul(ai, bi)), _radd(_rmul(ar, bi), _rmul(ai, br)))
    if ca:
        ar, ai = _cparts(a)
        return Cx(_rmul(ar, b), _rmul(ai, b))
    if cb:
        br, bi = _cparts(b)
        return Cx(_rmul(a, br), _rmul(a, bi))
    return _rmul(a, b)


def div(a, b):
    """a / b without any definedness check (callers establish b != 0)"""
    if _is_cx(b):
        br, bi = _cparts(b)
        ar, ai = _cparts(a)
        if not isinstance(bi, Re) and conc_of(bi) == 0:
            return Cx(_rdiv(ar, br), _rdiv(ai, br))
        d = _radd(_rmul(br, br), _rmul(bi, bi))
        nr = _radd(_rmul(ar, br), _rmul(ai, bi))
        ni = _rsub(_rmul(ai, br), _rmul(ar, bi))
        return Cx(_rdiv(nr, d), _rdiv(ni, d))
    if _is_cx(a):
        ar, ai = _cparts(a)
        return Cx(_rdiv(ar, b), _rdiv(ai, b))
    return _rdiv(a, b)


def pw(a, k):
    """a ** k for a concrete non-negative integer k (repeated product, a**0 == 1)"""
    if isinstance(k, Fraction) and k.denominator == 1:
        k = k.numerator
    if isinstance(k, float) and k == int(k):
        k = int(k)
    if isinstance(k, bool) or not isinstance(k, int):
        raise TypeError("pw: exponent must be a concrete integer, got %r" % (k,))
    if k < 0:
        return div(1, pw(a, -k))
    r = 1
    for _ in range(k):
        r = mul(r, a)
    return r


# ---------------------------------------------------------------- booleans

def is_symbool(x):
    return isinstance(x, z3.BoolRef)


def _zb(x):
    if isinstance(x, z3.BoolRef):
        return x
    if isinstance(x, bool):
        return z3.BoolVal(x)
    raise TypeError("not a boolean: %r" % (x,))


def And(*xs):
    if len(xs) == 1 and isinstance(xs[0], (list, tuple)):
        xs = tuple(xs[0])
    out = []
    for x in xs:
        if isinstance(x, bool):
            if not x:
                return False
            continue
        out.append(_zb(x))
    if not out:
        return True
    if len(out) == 1:
        return out[0]
    return z3.And(*out)


def Or(*xs):
    if len(xs) == 1 and isinstance(xs[0], (list, tuple)):
        xs = tuple(xs[0])
    out = []
    for x in xs:
        if isinstance(x, bool):
            if x:
                return True
            continue
        out.append(_zb(x))
    if not out:
        return False
    if len(out) == 1:
        return out[0]
    return z3.Or(*out)


def Not(x):
    if isinstance(x, bool):
        return not x
    return z3.Not(_zb(x))


def Implies(a, b):
    return Or(Not(a), b)


def Iff(a, b):
    if isinstance(a, bool) and isinstance(b, bool):
        return a == b
    if isinstance(a, bool):
        return b if a else Not(b)
    if isinstance(b, bool):
        return a if b else Not(a)
    return a == b


def If(c, a, b):
    if isinstance(c, bool):
        return a if c else b
    if isinstance(a, (tuple, list)) and isinstance(b, (tuple, list)) and len(a) == len(b):
        return type(a)(If(c, x, y) for x, y in zip(a, b))
    if _is_cx(a) or _is_cx(b):
        (ar, ai), (br, bi) = _cparts(a), _cparts(b)
        return Cx(If(c, ar, br), If(c, ai, bi))
    if isinstance(a, (bool, z3.BoolRef)) and isinstance(b, (bool, z3.BoolRef)):
        return z3.If(c, _zb(a), _zb(b))
    if a is b:
        return a
    if _both_int(a, b):
        return Re(z3.If(c, zterm(a), zterm(b)))
    return Re(z3.If(c, zreal(a), zreal(b)))


def _cmp(a, b, op):
    if isinstance(a, INF_T) or isinstance(b, INF_T):
        # finite values only on the other side (precondition: finite inputs)
        sa = a.sign if isinstance(a, INF_T) else 0
        sb = b.sign if isinstance(b, INF_T) else 0
        return {'lt': sa < sb, 'le': sa <= sb}[op]
    if _is_cx(a) or _is_cx(b):
        raise TypeError("ordering comparison of complex numbers")
    if not isinstance(a, Re) and not isinstance(b, Re):
        a, b = conc_of(a), conc_of(b)
        return a < b if op == 'lt' else a <= b
    if _both_int(a, b):
        ta, tb = zterm(a), zterm(b)
    else:
        ta, tb = zreal(a), zreal(b)
    return ta < tb if op == 'lt' else ta <= tb


def lt(a, b): return _cmp(a, b, 'lt')
def le(a, b): return _cmp(a, b, 'le')
def gt(a, b): return _cmp(b, a, 'lt')
def ge(a, b): return _cmp(b, a, 'le')


def _req(a, b):
    if isinstance(a, INF_T) or isinstance(b, INF_T):
        return isinstance(a, INF_T) and isinstance(b, INF_T) and a.sign == b.sign
    if not isinstance(a, Re) and not isinstance(b, Re):
        return conc_of(a) == conc_of(b)
    if _both_int(a, b):
        ta, tb = zterm(a), zterm(b)
    else:
        ta, tb = zreal(a), zreal(b)
    if ta.eq(tb):
        return True
    return ta == tb


def eq(a, b):
    """numeric equality (real or complex); returns bool or z3 BoolRef"""
    if isinstance(a, (tuple, list)) and isinstance(b, (tuple, list)):
        if len(a) != len(b):
            return False
        return And(*[eq(x, y) for x, y in zip(a, b)])
    if isinstance(a, (bool, z3.BoolRef)) and isinstance(b, (bool, z3.BoolRef)):
        return Iff(a, b)
    if _is_cx(a) or _is_cx(b):
        (ar, ai), (br, bi) = _cparts(a), _cparts(b)
        return And(_req(ar, br), _req(ai, bi))
    return _req(a, b)


def ne(a, b):
    return Not(eq(a, b))


def absv(a):
    """abs of a real (If) or a complex (sqrt witness)"""
    if _is_cx(a):
        ar, ai = _cparts(a)
        if not isinstance(ai, Re) and conc_of(ai) == 0:
            return absv(ar)
        if not isinstance(ar, Re) and conc_of(ar) == 0:
            return absv(ai)
        return sqrt_w(_radd(_rmul(ar, ar), _rmul(ai, ai)), 'abs')
    if not isinstance(a, Re):
        return _norm(abs(conc_of(a)))
    return If(le(0, a), a, neg(a))


def sqrt_w(x, tag='sqrt'):
    """principal square root of a real x assumed >= 0: fresh witness r with r>=0, r*r == x.
    Perfect squares of concrete numbers are folded."""
    if not isinstance(x, Re):
        x = conc_of(x)
        if x < 0:
            raise ValueError("sqrt of a negative concrete number")
        f = Fraction(x)
        import math
        n, d = f.numerator, f.denominator
        rn, rd = math.isqrt(n), math.isqrt(d)
        if rn * rn == n and rd * rd == d:
            return _norm(Fraction(rn, rd))
    c = ctx()
    key = ('sqrt', zreal(x).get_id())
    if key in c.witness:
        return c.witness[key]
    r = c.fresh_real(tag)
    c.fact(z3.And(r.t >= 0, r.t * r.t == zreal(x)))
    c.witness[key] = r
    c.keep.append(zreal(x))
    if not hasattr(c, 'wdefs'):
        c.wdefs = {}
    c.wdefs[r.t.get_id()] = ('sqrt', zreal(x))
    c.keep.append(r.t)
    return r


def real_of(z):
    if _is_cx(z):
        return _cparts(z)[0]
    return z


def imag_of(z):
    if _is_cx(z):
        return _cparts(z)[1]
    return 0


def to_cx(z):
    if isinstance(z, Cx):
        return z
    r, i = _cparts(z)
    return Cx(r, i)


def zbool(x):
    return _zb(x)


def simplify_bool(b):
    if isinstance(b, bool):
        return b
    s = z3.simplify(b)
    if z3.is_true(s):
        return True
    if z3.is_false(s):
        return False
    return b
