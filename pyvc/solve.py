"""Back ends: ring (canonical polynomials), z3 (default tactic), z3 qfnra-nlsat, cvc5."""
import os
import subprocess
import tempfile
import time
from fractions import Fraction
import z3

from . import ring


def _model_dict(m):
    out = {}
    for d in m.decls():
        if d.arity() != 0:
            continue
        v = m[d]
        try:
            if z3.is_rational_value(v):
                out[d.name()] = '%d/%d' % (v.numerator_as_long(), v.denominator_as_long())
            elif z3.is_int_value(v):
                out[d.name()] = str(v.as_long())
            elif z3.is_algebraic_value(v):
                a = v.approx(30)
                out[d.name()] = '%d/%d' % (a.numerator_as_long(), a.denominator_as_long())
            elif z3.is_true(v):
                out[d.name()] = 'true'
            elif z3.is_false(v):
                out[d.name()] = 'false'
            else:
                out[d.name()] = str(v)
        except Exception:
            out[d.name()] = str(v)
    return out


def to_smt2(hyps, goal):
    s = z3.Solver()
    for h in hyps:
        s.add(h)
    s.add(z3.Not(goal))
    return s.to_smt2()


def _z3_check(hyps, goal, timeout_ms, tactic=None):
    if tactic is None:
        s = z3.Solver()
    else:
        s = z3.Tactic(tactic).solver()
    s.set('timeout', int(timeout_ms))
    for h in hyps:
        s.add(h)
    s.add(z3.Not(goal))
    r = s.check()
    if r == z3.unsat:
        return 'unsat', None
    if r == z3.sat:
        try:
            return 'sat', _model_dict(s.model())
        except Exception:
            return 'sat', {}
    return 'unknown', None


def _flatten_and(f, out):
    if z3.is_and(f):
        for ch in f.children():
            _flatten_and(ch, out)
    else:
        out.append(f)


def _occurs(v, t):
    todo, seen = [t], set()
    while todo:
        x = todo.pop()
        i = x.get_id()
        if i in seen:
            continue
        seen.add(i)
        if x.eq(v):
            return True
        todo.extend(x.children())
    return False


def ring_subst_decides(hyps, goal, max_defs=200):
    """`ring-subst` back end: definitional equalities  const == term  among the hypotheses are
    substituted away; the goal (a conjunction of equalities) is proved if every conjunct is then
    a polynomial identity or a rational linear combination of the remaining hypothesis
    equalities (as polynomials).  Sound: only consequences of the hypotheses are derived."""
    conj = []
    for h in hyps:
        _flatten_and(h, conj)
    goals = []
    _flatten_and(goal, goals)
    if not goals or not all(z3.is_eq(g) and z3.is_arith(g.children()[0]) for g in goals):
        return False
    eqs = [h for h in conj if z3.is_eq(h) and z3.is_arith(h.children()[0])]
    defs, rest = [], []
    for e in eqs:
        a, b = e.children()
        done = False
        for v, t in ((a, b), (b, a)):
            if z3.is_const(v) and v.decl().kind() == z3.Z3_OP_UNINTERPRETED and not _occurs(v, t) \
                    and not any(v.eq(d[0]) for d in defs):
                defs.append((v, t))
                done = True
                break
        if not done:
            rest.append(e)
    if len(defs) > max_defs:
        return False

    def sub(t):
        for _ in range(len(defs) + 1):
            t2 = z3.substitute(t, *defs) if defs else t
            if t2.eq(t):
                break
            t = t2
        return t
    try:
        basis = []
        for e in rest:
            a, b = e.children()
            p = ring.add(ring.from_z3(sub(a)), ring.scale(ring.from_z3(sub(b)), -1))
            if p:
                basis.append(p)
        # a definition whose right-hand side mentions another defined constant is applied
        # through `sub`; definitions themselves add nothing to the span
        for g in goals:
            a, b = g.children()
            p = ring.add(ring.from_z3(sub(a)), ring.scale(ring.from_z3(sub(b)), -1))
            if p and not _in_span(p, basis):
                return False
        return True
    except ring.TooBig:
        return False


def _in_span(p, basis):
    """is the polynomial p a rational linear combination of the polynomials in basis?"""
    if not basis:
        return False
    monos = sorted(set(m for q in basis + [p] for m in q), key=repr)
    idx = dict((m, i) for i, m in enumerate(monos))
    from fractions import Fraction as F
    rows = []
    for q in basis:
        r = [F(0)] * len(monos)
        for m, cf in q.items():
            r[idx[m]] = cf
        rows.append(r)
    tgt = [F(0)] * len(monos)
    for m, cf in p.items():
        tgt[idx[m]] = cf
    # eliminate
    piv = []
    for r in rows:
        for (pc, pr) in piv:
            if r[pc] != 0:
                k = r[pc]
                r = [x - k * y for x, y in zip(r, pr)]
        nz = next((i for i, x in enumerate(r) if x != 0), None)
        if nz is None:
            continue
        k = r[nz]
        r = [x / k for x in r]
        piv.append((nz, r))
    for (pc, pr) in piv:
        if tgt[pc] != 0:
            k = tgt[pc]
            tgt = [x - k * y for x, y in zip(tgt, pr)]
    return all(x == 0 for x in tgt)


def cvc5_check(smt2, timeout_s):
    """run /usr/bin/cvc5 on an SMT-LIB text; returns 'unsat' | 'sat' | 'unknown'"""
    exe = '/usr/bin/cvc5'
    if not os.path.exists(exe):
        return 'unknown'
    fd, path = tempfile.mkstemp(suffix='.smt2', prefix='pyvc_')
    try:
        with os.fdopen(fd, 'w') as f:
            txt = smt2
            if '(set-logic' not in txt:
                txt = '(set-logic ALL)\n' + txt
            f.write(txt)
        try:
            p = subprocess.run([exe, '--tlimit=%d' % int(timeout_s * 1000), '--nl-ext-tplanes', path],
                               capture_output=True, text=True, timeout=timeout_s + 5)
        except subprocess.TimeoutExpired:
            return 'unknown'
        out = p.stdout.strip().split('\n')[0] if p.stdout.strip() else ''
        if out in ('unsat', 'sat'):
            return out
        return 'unknown'
    finally:
        try:
            os.unlink(path)
        except OSError:
            pass


def discharge(ob, budget_s=60.0, use_cvc5=True, cross=False):
    """decide one obligation.  Returns dict(status, backend, time, model, tried)."""
    t0 = time.time()
    tried = []
    res = {'status': 'unknown', 'backend': None, 'model': None}
    # 1. ring
    try:
        if ring.goal_is_ring_identity(ob.goal):
            res.update(status='unsat', backend='ring')
            tried.append('ring')
            if not cross:
                res['time'] = time.time() - t0
                res['tried'] = tried
                return res
    except Exception:
        pass
    ring_done = res['status'] == 'unsat'
    # 1a. definitional substitution + linear span of the hypothesis equalities
    if not ring_done and len(ob.hyps) <= 60:
        try:
            if ring_subst_decides(ob.hyps, ob.goal):
                tried.append('ring-subst')
                res.update(status='unsat', backend='ring-subst')
                if not cross:
                    res['time'] = time.time() - t0
                    res['tried'] = tried
                    return res
                ring_done = True
        except Exception:
            pass
    # 1b. relaxation: without the witness facts (sqrt/trig axioms).  unsat here is unsat with them.
    if not ring_done and getattr(ob, 'light', None) is not None and len(ob.light) < len(ob.hyps):
        tried.append('z3-nofacts')
        try:
            st, _ = _z3_check(ob.light, ob.goal, min(5000, budget_s * 100))
        except z3.Z3Exception:
            st = 'unknown'
        if st == 'unsat':
            res.update(status='unsat', backend='z3-nofacts')
            res['time'] = time.time() - t0
            res['tried'] = tried
            return res
    # 2. z3 default, 3. nlsat
    remaining = lambda: max(1.0, budget_s - (time.time() - t0))
    st = 'unknown'
    for tactic, share in ((None, 0.4), ('qfnra-nlsat', 0.6)):
        tmo = remaining() * share * 1000
        tried.append('z3' if tactic is None else 'z3-nlsat')
        try:
            st, model = _z3_check(ob.hyps, ob.goal, tmo, tactic)
        except z3.Z3Exception as e:
            st, model = 'unknown', None
        if st != 'unknown':
            if ring_done:
                res['cross'] = (tried[-1], st)
                if st == 'sat':
                    # disagreement between back ends: report, keep undecided
                    res.update(status='unknown', backend='ring-vs-z3', model=model)
            else:
                res.update(status=st, backend=tried[-1], model=model)
            break
    if res['status'] == 'unknown' and not ring_done and use_cvc5 and remaining() > 2:
        tried.append('cvc5')
        try:
            st = cvc5_check(to_smt2(ob.hyps, ob.goal), min(remaining(), 60))
        except Exception:
            st = 'unknown'
        if st == 'unsat':
            res.update(status='unsat', backend='cvc5')
        elif st == 'sat':
            res.update(status='sat', backend='cvc5', model={})
    res['time'] = time.time() - t0
    res['tried'] = tried
    return res


def hyps_satisfiable(hyps, timeout_ms=2000):
    s = z3.Solver()
    s.set('timeout', int(timeout_ms))
    for h in hyps:
        s.add(h)
    r = s.check()
    return 'sat' if r == z3.sat else ('unsat' if r == z3.unsat else 'unknown')
