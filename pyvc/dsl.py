"""Contract registry and the context object handed to sidecar contracts.

A contract is a Python function `f(c, **params)`; `c` is a SymContext when verification
conditions are generated (engine, python3-vt) and a ConcContext when the same contract is
evaluated on concrete inputs against the real library (replay, bounded stand-ins;
/venv/bin/python).  Contracts use only `c.*` and `pyvc.ops` so that both readings exist.
"""
import importlib
import os

REGISTRY = []


class Contract(object):
    def __init__(self, prop, target, fn, name, params, level, covers, budget, tier, note):
        self.prop = prop
        self.target = target          # qualified name of the function under contract
        self.fn = fn
        self.name = name              # unique: <fn name>[<params>]
        self.params = params
        self.level = level            # 'proved' | 'per-shape' | 'relative' (R)
        self.covers = covers          # other functions executed in place on purpose
        self.budget = budget
        self.tier = tier              # 'quick' (both tiers) | 'thorough'
        self.note = note

    def ident(self):
        return '%s/%s/%s' % (self.prop, self.target, self.name)


def contract(prop, target, params=None, level='proved', covers=(), budget=60.0, tier='quick', note=''):
    """register a contract (one instance per entry of `params`, a list of dicts)"""
    def deco(fn):
        plist = params if params is not None else [None]
        for p in plist:
            nm = fn.__name__
            if p and any(not k.startswith('_') for k in p):
                nm += '[' + ','.join('%s=%s' % (k, p[k]) for k in sorted(p) if not k.startswith('_')) + ']'
            REGISTRY.append(Contract(prop, target, fn, nm, p or {}, level, tuple(covers), budget, tier, note))
        return fn
    return deco


def share(prop, fn_names):
    """register contracts that already exist under another property under `prop` as well (the
    same function and instances): a statement that two properties both depend on is checked by
    each property's command"""
    have = set((c.prop, c.fn.__module__, c.name) for c in REGISTRY)
    for c in list(REGISTRY):
        if c.fn.__name__ in fn_names and c.prop != prop and (prop, c.fn.__module__, c.name) not in have:
            REGISTRY.append(Contract(prop, c.target, c.fn, c.name, c.params, c.level, c.covers, c.budget, c.tier, c.note))
            have.add((prop, c.fn.__module__, c.name))


def load_contracts(prop=None):
    """import every module under /verif/contracts (or only c<prop>.py)"""
    here = os.path.dirname(os.path.dirname(os.path.abspath(__file__)))
    cdir = os.path.join(here, 'contracts')
    for fn in sorted(os.listdir(cdir)):
        if fn.endswith('.py') and not fn.startswith('_'):
            importlib.import_module('contracts.' + fn[:-3])
    if prop is None:
        return list(REGISTRY)
    return [c for c in REGISTRY if c.prop == prop]


class Outcome(object):
    """result of running real code: kind in {'ok','raise','undefined'}"""
    def __init__(self, kind, value=None, exc=None, msg=None):
        self.kind = kind
        self.value = value
        self.exc = exc        # exception class name
        self.msg = msg

    def __repr__(self):
        return 'Outcome(%s, %r, %r)' % (self.kind, self.value, self.exc)


# ====================================================================== symbolic context

class SymContext(object):
    mode = 'sym'

    def __init__(self, pathctx, contract, summaries=None, global_overrides=None, loop_specs=None):
        from . import interp, sym
        self._sym = sym
        self._I = interp
        self.ctx = pathctx
        self.contract = contract
        self.ip = interp.Interp(pathctx, summaries=summaries, global_overrides=global_overrides,
                                loop_specs=loop_specs)
        self._install_default_models()

    def _install_default_models(self):
        I = self._I
        from .explore import Unsupported

        def nomodel(name):
            def f(ip, a, k):
                raise Unsupported("%s: no model supplied by the contract" % name)
            return I.Builtin(name, f)
        self.ip.np_roots_model = nomodel('numpy.roots')
        self.ip.np_eig_model = nomodel('numpy.linalg.eig')
        self.ip.quad_model = nomodel('scipy.integrate.quad')

    # ---- inputs
    def real(self, name):
        import z3
        v = z3.Real(name)
        self.ctx.inputs[name] = ('real', v)
        return self._sym.Re(v)

    def int(self, name):
        import z3
        v = z3.Int(name)
        self.ctx.inputs[name] = ('int', v)
        return self._sym.Re(v)

    def bool(self, name):
        import z3
        v = z3.Bool(name)
        self.ctx.inputs[name] = ('bool', v)
        return v

    def cplx(self, name):
        return self._sym.Cx(self.real(name + '.re'), self.real(name + '.im'))

    def const(self, x):
        """a literal number of the contract (decimal strings stay exact)"""
        from fractions import Fraction
        if isinstance(x, str):
            return Fraction(x)
        if isinstance(x, float):
            return Fraction(repr(x))
        return x

    # ---- hypotheses / conclusions
    def assume(self, cond):
        self.ctx.assume(cond)

    def ensures(self, name, cond, using=None, **meta):
        self.ctx.oblige(name, cond, meta, using=None if using is None else [self._h(u) for u in using])

    def _h(self, u):
        return u if isinstance(u, bool) else self._sym.zbool(u)

    def hyp(self, cond):
        """a formula that is already a hypothesis of the current path (assumption / path
        literal / proved step), to be passed in `using=`: stated as a step so that it is checked"""
        return cond

    def witness_facts(self, *values):
        """the defining facts (r >= 0, r*r == radicand) of sqrt/abs witnesses, for `using=`"""
        import z3
        ids = set()
        for v in values:
            if isinstance(v, self._sym.Re):
                todo = [v.t]
                while todo:
                    x = todo.pop()
                    if z3.is_const(x) and x.decl().kind() == z3.Z3_OP_UNINTERPRETED:
                        ids.add(x.get_id())
                    todo.extend(x.children())
        out = []
        for f in self.ctx.facts:
            names = set()
            todo = [f]
            while todo:
                x = todo.pop()
                if z3.is_const(x) and x.decl().kind() == z3.Z3_OP_UNINTERPRETED:
                    names.add(x.get_id())
                todo.extend(x.children())
            if names & ids:
                out.append(f)
        return out

    def facts_with(self, decl_name):
        """witness/axiom facts of this path that mention the function symbol `decl_name`"""
        import z3
        out = []
        for f in self.ctx.facts:
            todo, hit = [f], False
            while todo and not hit:
                x = todo.pop()
                if z3.is_app(x) and x.decl().name() == decl_name:
                    hit = True
                todo.extend(x.children())
            if hit:
                out.append(f)
        return out

    def fact(self, cond):
        """a true mathematical fact used as a hypothesis (listed in the evidence)"""
        self.ctx.notes.append(('axiom', str(cond)[:200]))
        self.ctx.assume(cond)

    def cut(self):
        from .explore import PathAbort
        raise PathAbort("cut")

    def step(self, name, cond, using=None, **meta):
        """lemma chain: an obligation that later obligations of this path may use; returns the
        formula so it can be listed in a later `using=`"""
        f = self._h(cond)
        self.ctx.oblige(name, f, meta, using=None if using is None else [self._h(u) for u in using])
        self.ctx.assume(f)
        return f

    def assumed(self, cond):
        """assume and return the formula (for `using=`)"""
        f = self._h(cond)
        self.ctx.assume(f)
        return f

    def cut_at(self, qual, local_name, hook):
        """assert-then-assume cut at the assignment `local_name = ...` inside function `qual`:
        hook(value) states what is proved about the value (c.step/c.ensures) and returns the
        abstracted value that execution continues with"""
        import inspect
        nargs = len(inspect.signature(hook).parameters)
        self.ip.cuts[(qual, local_name)] = (lambda v, env: hook(v)) if nargs == 1 else (lambda v, env: hook(v, env.vars))

    def loop_invariant(self, qual, ordinal, inv, havoc, name=None, variant=None):
        """inductive invariant for the `ordinal`-th loop (source order) of function `qual`
        (DESIGN.md 1.5).  inv(vars) -> formula over the local variables; havoc(vars) replaces
        the loop-modified locals by arbitrary values.  Generates three kinds of obligations:
        init (invariant holds on entry), preserve (one arbitrary iteration re-establishes it;
        the path is then cut), and the code after the loop runs from an arbitrary state that
        satisfies the invariant and the negated loop test.  `variant(vars)` (optional) must be
        >= 0 and decrease strictly on every iteration (termination)."""
        I = self._I
        sym = self._sym
        from .explore import PathAbort
        tag = name or ('loop%d' % ordinal)
        ctx = self.ctx

        def rule(ip, st, env):
            import ast as _ast
            ctx.oblige('%s/invariant-holds-on-entry' % tag, self._h(inv(env.vars)))
            havoc(env.vars)
            ctx.assume(self._h(inv(env.vars)))
            if isinstance(st, _ast.While):
                test = ip.truth(ip.eval(st.test, env))
                go = test if isinstance(test, bool) else ctx.decide(test)
            else:
                raise I.Unsupported("loop_invariant on a for loop: use for_invariant")
            if not go:
                ip.exec_block(st.orelse, env)
                return
            v0 = variant(env.vars) if variant is not None else None
            try:
                ip.exec_block(st.body, env)
            except I._Continue:
                pass
            except I._Break:
                return
            ctx.oblige('%s/invariant-is-preserved' % tag, self._h(inv(env.vars)))
            if variant is not None:
                v1 = variant(env.vars)
                ctx.oblige('%s/variant-decreases' % tag, self._h(sym.And(sym.le(0, v0), sym.lt(v1, v0))))
            raise PathAbort("loop cut after one arbitrary iteration")
        self.ip.loop_specs[(qual, ordinal)] = rule

    def use_lemma(self, name, *args):
        """assume an instance of a ghost lemma that is proved by its own contract"""
        from contracts import lemmas
        self.ctx.notes.append(('lemma', name))
        f = self._sym.zbool(lemmas.LEMMAS[name](*args))
        self.ctx.assume(f)
        return f

    def known(self, cond):
        return self.ctx.known(cond)

    def decide(self, cond):
        return self.ctx.decide(cond) if not isinstance(cond, bool) else cond

    # ---- real code
    def glob(self, qual):
        return self.ip.get_global(qual)

    def new(self, qual, *args, **kw):
        return self.ip.call(self.ip.get_global(qual), list(args), kw)

    def call(self, qual, *args, **kw):
        f = self.ip.get_global(qual) if isinstance(qual, str) else qual
        return self.ip.call(f, list(args), kw)

    def callm(self, obj, meth, *args, **kw):
        return self.ip.call(self.ip.getattr(obj, meth), list(args), kw)

    def get(self, obj, attr):
        return self.ip.getattr(obj, attr)

    def set(self, obj, attr, v):
        self.ip.setattr(obj, attr, v)

    def item(self, obj, idx):
        return self.ip.getitem(obj, idx)

    def setitem(self, obj, idx, v):
        self.ip.setitem(obj, idx, v)

    def delitem(self, obj, idx):
        self.ip.delitem(obj, idx)

    def items(self, v):
        return self.ip.iterate(v)

    def length(self, v):
        return self.ip.call(self.ip.builtins['len'], [v], {})

    def py_eq(self, a, b):
        return self.ip.truth(self.ip.py_eq(a, b))

    def isinstance(self, v, qual):
        return self.ip.call(self.ip.builtins['isinstance'], [v, self.ip.get_global(qual)], {})

    def outcome(self, thunk):
        I = self._I
        try:
            return Outcome('ok', thunk())
        except I.PyRaise as pr:
            return Outcome('raise', exc=pr.exc.cls.name, msg=repr(pr.exc.attrs.get('args')))
        except I.Undefined as u:
            return Outcome('undefined', msg=str(u))

    # ---- values
    def list(self, xs):
        return list(xs)

    def poly1d(self, coeffs):
        from . import models
        return models.Poly1d(list(coeffs))

    def is_poly1d(self, v):
        from . import models
        return isinstance(v, models.Poly1d)

    def poly_coeffs(self, p):
        return list(p.strip(self.ip).c)

    def array_items(self, a):
        return list(self.ip.iterate(a))

    def lam(self, pyfunc):
        """wrap a Python function of the contract as a callable for the interpreted code"""
        return self._I.Builtin('contract-lambda', lambda ip, a, k: pyfunc(*a, **k))

    def exact_eq(self, a, b):
        """float == (used by the EUF-mode exactness clauses)"""
        return self._sym.eq(a, b)

    def hash(self, obj):
        return self.ip.call(self.ip.builtins['hash'], [obj], {})

    def ddt(self, value, var):
        """d(value)/d(var) of an executed term (differential contracts)"""
        from . import diff
        return diff.ddt(value, var)

    def raw_object(self, qual, **attrs):
        """an instance of a repo class in an ARBITRARY field state (no constructor run)"""
        o = self._I.Obj(self.ip.get_global(qual))
        o.attrs.update(attrs)
        return o

    def stop_at(self, qual, local_name, callback):
        """run `callback(value, locals)` at the assignment `local_name = ...` inside `qual` and
        cut the path there (what follows is not needed by the clause at hand)"""
        from .explore import PathAbort

        def hook(v, env):
            callback(v, env.vars)
            raise PathAbort("stop_at %s.%s" % (qual, local_name))
        self.ip.cuts[(qual, local_name)] = hook

    def set_global(self, qual, value):
        mod, _, name = qual.partition('.')
        self.ip.module(mod).vars[name] = value

    def cos_sin_deg(self, degs):
        """(cos, sin) of an angle given in degrees (same uninterpreted atoms the code reaches
        through radians())"""
        from . import trig
        return trig.cos_sin(self._sym.div(self._sym.mul(degs, trig.PI()), 180))

    def matrix(self, rows):
        from . import models
        return models.NDArr(rows)

    def matrix_rows(self, m):
        return [list(r) for r in m.rows]

    def element(self, local, attrib=None, children=()):
        from . import models
        return models.make_element(self.ip, local, attrib, children)

    def numstr(self, x):
        """the attribute string of a number (LEX: float() of it is the number)"""
        return self._I.TokStr([self._I.Num(x)])

    # ---- assumed dependency models supplied by the contract
    def roots_model(self, fn):
        """numpy.roots(p) returns fn(p): an arbitrary list chosen by the contract (assumed
        contract of numpy.roots: *some* list, in *some* order)"""
        from . import models
        self.ip.np_roots_model = self._I.Builtin('numpy.roots(model)', lambda ip, a, k: models.CoefArr(list(fn(a[0]))))

    def numpy_floats(self, on=True):
        """the code under contract divides numpy scalars: x/0 and log(0) are inf/nan values
        (with a warning), not exceptions"""
        self.ip.numpy_floats = on

    def is_finite(self, v):
        return not isinstance(v, self._I.NF)

    def merge_ifs(self, mode=True):
        """if-merging into guarded list elements (DESIGN.md 1.4); 'if-only' merges statements
        but forks on comprehension filters"""
        self.ip.merge = mode

    def present(self, res, F, i):
        """the element at position i of F occurs exactly once in the result list"""
        I = self._I
        sym = self._sym
        if len(res) == len(F) and all((x.value if isinstance(x, I.Guarded) else x) is F[k] for k, x in enumerate(res)):
            x = res[i]
            return x.guard if isinstance(x, I.Guarded) else True
        n = 0
        for x in res:
            if isinstance(x, I.Guarded):
                n = sym.add(n, sym.If(sym.And(x.guard, sym.eq(x.value, F[i])), 1, 0))
            else:
                n = sym.add(n, sym.If(sym.eq(x, F[i]), 1, 0))
        return sym.eq(n, 1)

    def sublist_of(self, res, F):
        """every element of the result is (==) some element of F"""
        I = self._I
        sym = self._sym
        out = []
        for x in res:
            v = x.value if isinstance(x, I.Guarded) else x
            g = x.guard if isinstance(x, I.Guarded) else True
            out.append(sym.Implies(g, sym.Or(*[(v is f) or sym.eq(v, f) for f in F])))
        return sym.And(*out)


# ====================================================================== concrete context

class ConcContext(object):
    """evaluates a contract on concrete inputs against the real library"""
    mode = 'conc'

    def __init__(self, inputs, contract=None, tol=1e-9):
        self.inputs = inputs          # name -> float / int / bool
        self.results = []             # (clause, ok)
        self.contract = contract
        self.tol = tol
        self.vacuous = False
        self.missing = []

    def _in(self, name, default):
        if name in self.inputs:
            return self.inputs[name]
        self.missing.append(name)
        return default

    def real(self, name):
        return float(self._in(name, 0.0))

    def int(self, name):
        return int(self._in(name, 0))

    def bool(self, name):
        return bool(self._in(name, False))

    def cplx(self, name):
        return complex(self.real(name + '.re'), self.real(name + '.im'))

    def const(self, x):
        return float(x)

    class Vacuous(Exception):
        pass

    def assume(self, cond):
        if not cond:
            self.vacuous = True
            raise ConcContext.Vacuous()

    def fact(self, cond):
        pass

    def cut(self):
        raise ConcContext.Vacuous()

    def known(self, cond):
        return bool(cond)

    def use_lemma(self, name, *args):
        pass

    def loop_invariant(self, *a, **k):
        pass

    def step(self, name, cond, using=None, **meta):
        self.results.append((name, bool(cond)))
        return cond

    def cut_at(self, qual, local_name, hook):
        pass

    def decide(self, cond):
        return bool(cond)

    def ensures(self, name, cond, using=None, **meta):
        self.results.append((name, bool(cond)))

    def hyp(self, cond):
        return cond

    def witness_facts(self, *values):
        return []

    def facts_with(self, decl_name):
        return []

    def assumed(self, cond):
        self.assume(cond)
        return cond

    def glob(self, qual):
        import importlib
        parts = qual.split('.')
        m = importlib.import_module('svgpathtools.' + parts[0])
        v = getattr(m, parts[1])
        for p in parts[2:]:
            v = getattr(v, p)
        return v

    def new(self, qual, *args, **kw):
        return self.glob(qual)(*args, **kw)

    def call(self, qual, *args, **kw):
        f = self.glob(qual) if isinstance(qual, str) else qual
        return f(*args, **kw)

    def callm(self, obj, meth, *args, **kw):
        return getattr(obj, meth)(*args, **kw)

    def get(self, obj, attr):
        return getattr(obj, attr)

    def set(self, obj, attr, v):
        setattr(obj, attr, v)

    def item(self, obj, idx):
        return obj[idx]

    def setitem(self, obj, idx, v):
        obj[idx] = v

    def delitem(self, obj, idx):
        del obj[idx]

    def items(self, v):
        return list(v)

    def length(self, v):
        return len(v)

    def py_eq(self, a, b):
        """== of the real objects; segments and numbers are compared up to rounding"""
        from . import ops
        if type(a) is type(b) and hasattr(a, 'bpoints'):
            return ops.eq(list(a.bpoints()), list(b.bpoints()))
        if isinstance(a, (int, float, complex)) and isinstance(b, (int, float, complex)) \
                and not isinstance(a, bool) and not isinstance(b, bool):
            return ops.eq(a, b)
        return a == b

    def isinstance(self, v, qual):
        return isinstance(v, self.glob(qual))

    def outcome(self, thunk):
        import warnings
        try:
            with warnings.catch_warnings():
                warnings.simplefilter('ignore')
                v = thunk()
        except ConcContext.Vacuous:
            raise
        except Exception as e:
            return Outcome('raise', exc=type(e).__name__, msg=str(e)[:200])
        return Outcome('ok', v)

    def list(self, xs):
        return list(xs)

    def poly1d(self, coeffs):
        import numpy as np
        return np.poly1d(list(coeffs))

    def is_poly1d(self, v):
        import numpy as np
        return isinstance(v, np.poly1d)

    def poly_coeffs(self, p):
        return [complex(x) for x in p.coeffs]

    def array_items(self, a):
        return [complex(x) if isinstance(x, complex) or getattr(x, 'imag', 0) != 0 else float(x) for x in a]

    def lam(self, pyfunc):
        return pyfunc

    def exact_eq(self, a, b):
        return a == b

    def hash(self, obj):
        return hash(obj)

    def raw_object(self, qual, **attrs):
        cls = self.glob(qual)
        o = object.__new__(cls)
        for k, v in attrs.items():
            setattr(o, k, v)
        return o

    def set_global(self, qual, value):
        import importlib
        mod, _, name = qual.partition('.')
        setattr(importlib.import_module('svgpathtools.' + mod), name, value)

    def cos_sin_deg(self, degs):
        import math
        return math.cos(math.radians(degs)), math.sin(math.radians(degs))

    def matrix(self, rows):
        import numpy as np
        return np.array([[float(x) for x in r] for r in rows])

    def matrix_rows(self, m):
        return [[float(x) for x in r] for r in m]

    def element(self, local, attrib=None, children=()):
        import xml.etree.ElementTree as ET
        e = ET.Element('{http://www.w3.org/2000/svg}' + local, {k: str(v) for k, v in (attrib or {}).items()})
        for ch in children:
            e.append(ch)
        return e

    def numstr(self, x):
        return repr(float(x))

    def roots_model(self, fn):
        import numpy as np
        import svgpathtools.polytools as pt

        class Shim(object):
            def __getattr__(self_, name):
                return getattr(np, name)

            def roots(self_, p):
                return np.array(list(fn(p)))
        pt.np = Shim()

    def merge_ifs(self, mode=True):
        pass

    def numpy_floats(self, on=True):
        pass

    def is_finite(self, v):
        import math
        return math.isfinite(v)

    def present(self, res, F, i):
        return sum(1 for x in res if x == F[i]) == 1

    def sublist_of(self, res, F):
        return all(any(x == f for f in F) for x in res)
