"""Path exploration by decision-prefix re-execution.

A *harness* (a sidecar contract) is an ordinary Python callable that builds symbolic inputs,
executes real /repo code through the interpreter and states obligations.  Every symbolic branch
asks `PathCtx.decide`.  A run follows a given prefix of decisions and then takes the first
feasible alternative at every new branch, queueing the other one.  The harness is re-executed
from scratch for every path, so the Python object graph built by the interpreter is the heap and
never has to be copied.
"""
import time
import z3
from . import sym


class PathAbort(Exception):
    """the current path is vacuous (an assumption is false) or was cut on purpose"""


class Unsupported(Exception):
    """construct outside the supported Python subset"""


class Obligation(object):
    __slots__ = ('name', 'hyps', 'goal', 'path', 'meta', 'kind', 'light')

    def __init__(self, name, hyps, goal, path, meta=None, kind='ensures', light=None):
        self.name = name
        self.light = light      # hypotheses without witness facts (a sound relaxation)
        self.hyps = hyps
        self.goal = goal
        self.path = path
        self.meta = meta or {}
        self.kind = kind


FEAS_TIMEOUT_MS = [400]


class PathCtx(object):
    def __init__(self, prefix, path_no):
        self.prefix = list(prefix)
        self.taken = []
        self.pc = []
        self.facts = []
        self.assumes = []
        self.counter = 0
        self.witness = {}
        self.keep = []          # keep python refs of z3 terms whose ids are used as keys
        self.pending = []
        self.obligations = []
        self.path_no = path_no
        self.solver = z3.Solver()
        self.solver.set('timeout', FEAS_TIMEOUT_MS[0])
        # the linear hypotheses only: a cheap first pass for the feasibility checks (unsat with a
        # subset of the hypotheses is unsat with all of them)
        self.lin = z3.Solver()
        self.lin.set('timeout', 150)
        self.inputs = {}        # name -> z3 const (declared symbolic inputs)
        self.notes = []
        self.n_feas_checks = 0
        self.events = []        # e.g. names of inlined functions, summaries used
        self.trig = {}

    # ---- symbols
    def fresh_real(self, tag='w'):
        self.counter += 1
        return sym.Re(z3.Real('%s!%d' % (tag, self.counter)))

    def fresh_int(self, tag='k'):
        self.counter += 1
        return sym.Re(z3.Int('%s!%d' % (tag, self.counter)))

    def fresh_bool(self, tag='b'):
        self.counter += 1
        return z3.Bool('%s!%d' % (tag, self.counter))

    def fact(self, f):
        if isinstance(f, bool):
            if not f:
                raise PathAbort("false fact")
            return
        self.facts.append(f)
        self.solver.add(f)
        if _is_linear(f):
            self.lin.add(f)

    def assume(self, f):
        if isinstance(f, bool):
            if not f:
                raise PathAbort("assumption is false")
            return
        self.assumes.append(f)
        self.solver.add(f)
        if _is_linear(f):
            self.lin.add(f)

    def hyps(self):
        return list(self.assumes) + list(self.facts) + list(self.pc)

    # ---- branching
    def _feasible(self, cond):
        self.n_feas_checks += 1
        if _is_linear(cond):
            self.lin.push()
            self.lin.add(cond)
            r = self.lin.check()
            self.lin.pop()
            if r == z3.unsat:
                return False
        self.solver.push()
        self.solver.add(cond)
        r = self.solver.check()
        self.solver.pop()
        return r != z3.unsat

    def decide(self, cond):
        """choose a truth value for the symbolic condition `cond` on this path"""
        if isinstance(cond, bool):
            return cond
        s = z3.simplify(cond)
        if z3.is_true(s):
            return True
        if z3.is_false(s):
            return False
        r = _ring_decides(cond)
        if r is not None:
            return r
        idx = len(self.taken)
        if idx < len(self.prefix):
            choice = self.prefix[idx]
        else:
            ft = self._feasible(cond)
            ff = self._feasible(z3.Not(cond))
            if ft and ff:
                choice = True
                self.pending.append(self.taken + [False])
            elif ft:
                choice = True
            elif ff:
                choice = False
            else:
                # current path itself is infeasible
                raise PathAbort("infeasible path")
        self.taken.append(choice)
        lit = cond if choice else z3.Not(cond)
        self.pc.append(lit)
        self.solver.add(lit)
        if _is_linear(lit):
            self.lin.add(lit)
        return choice

    def known(self, cond):
        """True if cond is implied on this path, False if refuted, None if open (no fork)"""
        if isinstance(cond, bool):
            return cond
        s = z3.simplify(cond)
        if z3.is_true(s):
            return True
        if z3.is_false(s):
            return False
        if not self._feasible(z3.Not(cond)):
            return True
        if not self._feasible(cond):
            return False
        return None

    # ---- obligations
    def oblige(self, name, goal, meta=None, kind='ensures', using=None):
        if isinstance(goal, bool):
            goal = z3.BoolVal(goal)
        if using is not None:
            # explicit hypothesis selection: every formula must be a current hypothesis (an
            # assumption, witness fact, path literal or an earlier proved step) -- a subset of
            # the hypotheses, hence a sound relaxation
            have = set(h.get_id() for h in self.hyps())
            sel = []
            for u in using:
                if isinstance(u, bool):
                    if not u:
                        raise ValueError("`using` contains False")
                    continue
                if u.get_id() not in have:
                    raise ValueError("obligation %s: `using` formula is not a current hypothesis: %s" % (name, str(u)[:200]))
                sel.append(u)
            self.obligations.append(Obligation(name, sel, goal, self.path_no, meta, kind, light=None))
            return
        self.obligations.append(Obligation(name, self.hyps(), goal, self.path_no, meta, kind,
                                           light=list(self.assumes) + list(self.pc)))


_LIN_MEMO = {}


def _is_linear(t, _depth=0):
    """no product of two non-numerals, no division by a non-numeral, no power (syntactic)"""
    i = t.get_id()
    r = _LIN_MEMO.get(i)
    if r is not None and r[0].eq(t):
        return r[1]
    k = t.decl().kind() if z3.is_app(t) else None
    ch = t.children() if z3.is_app(t) else []
    ok = True
    if z3.is_quantifier(t):
        ok = False
    elif k == z3.Z3_OP_MUL:
        nonnum = [c for c in ch if not (z3.is_rational_value(c) or z3.is_int_value(c))]
        ok = len(nonnum) <= 1
    elif k in (z3.Z3_OP_DIV, z3.Z3_OP_IDIV, z3.Z3_OP_MOD, z3.Z3_OP_REM):
        ok = z3.is_rational_value(ch[1]) or z3.is_int_value(ch[1])
    elif k == z3.Z3_OP_POWER:
        ok = False
    if ok:
        ok = all(_is_linear(c) for c in ch)
    _LIN_MEMO[i] = (t, ok)
    return ok


def _ring_decides(cond):
    """equalities that are polynomial identities are True without consulting the solver"""
    from . import ring
    try:
        if z3.is_eq(cond) or z3.is_and(cond):
            if ring.goal_is_ring_identity(cond):
                return True
        if z3.is_not(cond):
            inner = cond.children()[0]
            if (z3.is_eq(inner) or z3.is_and(inner)) and ring.goal_is_ring_identity(inner):
                return False
    except Exception:
        return None
    return None


class ExploreResult(object):
    def __init__(self):
        self.paths = []
        self.obligations = []
        self.aborted = 0
        self.unsupported = []
        self.errors = []
        self.wall = 0.0
        self.events = set()
        self.truncated = False


def explore(harness, max_paths=4000, time_budget=600.0):
    """run `harness(ctx)` over all paths; returns ExploreResult"""
    res = ExploreResult()
    work = [[]]
    t0 = time.time()
    n = 0
    while work:
        if n >= max_paths or time.time() - t0 > time_budget:
            res.truncated = True
            break
        prefix = work.pop()
        ctx = PathCtx(prefix, n)
        n += 1
        sym.CTX[0] = ctx
        try:
            harness(ctx)
            res.paths.append(ctx)
            res.obligations.extend(ctx.obligations)
        except PathAbort:
            res.aborted += 1
            # obligations stated before the abort point still count (they were reachable); a path
            # that was cut on purpose after stating obligations (loop rule) counts as explored
            res.obligations.extend(ctx.obligations)
            if ctx.obligations:
                res.paths.append(ctx)
        except Unsupported as e:
            res.unsupported.append(str(e))
        finally:
            sym.CTX[0] = None
        res.events.update(ctx.events)
        work.extend(ctx.pending)
    res.wall = time.time() - t0
    return res
