"""Canonical form of z3 arithmetic terms as (Laurent) polynomials over Q -- the `ring` back end.

A polynomial is a dict  monomial -> Fraction,  a monomial a tuple of (atom_id, exponent) sorted
by atom_id.  Atoms are uninterpreted constants and every sub-term that is not built from
+ - * / and numerals (If, uninterpreted applications, quotients by non-monomials).  Division by
a monomial gives negative exponents: identities are identities of rational functions, i.e. they
hold wherever the executed divisions were defined (which the path condition guarantees).
"""
from fractions import Fraction
import z3

_ATOMS = {}      # id -> term (keeps terms alive so ids stay unique)
MAX_TERMS = 200000


class TooBig(Exception):
    pass


def _atom(t):
    i = t.get_id()
    if i not in _ATOMS:
        _ATOMS[i] = t
    return {((i, 1),): Fraction(1)}


def var_monomial(t):
    return ((t.get_id(), 1),)


def const(c):
    c = Fraction(c)
    return {(): c} if c != 0 else {}


def add(p, q):
    r = dict(p)
    for m, c in q.items():
        v = r.get(m, 0) + c
        if v == 0:
            r.pop(m, None)
        else:
            r[m] = v
    return r


def scale(p, k):
    k = Fraction(k)
    if k == 0:
        return {}
    return {m: c * k for m, c in p.items()}


def _mmul(a, b):
    d = dict(a)
    for i, e in b:
        v = d.get(i, 0) + e
        if v == 0:
            d.pop(i, None)
        else:
            d[i] = v
    return tuple(sorted(d.items()))


def mul(p, q):
    if len(p) * len(q) > MAX_TERMS:
        raise TooBig()
    r = {}
    for m1, c1 in p.items():
        for m2, c2 in q.items():
            m = _mmul(m1, m2)
            v = r.get(m, 0) + c1 * c2
            if v == 0:
                r.pop(m, None)
            else:
                r[m] = v
    return r


def power(p, k):
    r = const(1)
    for _ in range(k):
        r = mul(r, p)
    return r


def _numeral(t):
    if z3.is_rational_value(t):
        return Fraction(t.numerator_as_long(), t.denominator_as_long())
    if z3.is_int_value(t):
        return Fraction(t.as_long())
    return None


_memo = {}


def from_z3(t):
    i = t.get_id()
    if i in _memo and _memo[i][0].eq(t):
        return _memo[i][1]
    r = _from_z3(t)
    _memo[i] = (t, r)
    return r


def _from_z3(t):
    n = _numeral(t)
    if n is not None:
        return const(n)
    k = t.decl().kind()
    ch = t.children()
    if k == z3.Z3_OP_ADD:
        r = {}
        for c in ch:
            r = add(r, from_z3(c))
        return r
    if k == z3.Z3_OP_SUB:
        r = from_z3(ch[0])
        for c in ch[1:]:
            r = add(r, scale(from_z3(c), -1))
        return r
    if k == z3.Z3_OP_UMINUS:
        return scale(from_z3(ch[0]), -1)
    if k == z3.Z3_OP_MUL:
        r = const(1)
        for c in ch:
            r = mul(r, from_z3(c))
        return r
    if k == z3.Z3_OP_DIV:
        num = from_z3(ch[0])
        den = from_z3(ch[1])
        if len(den) == 1:
            (m, c), = den.items()
            inv = {tuple((i, -e) for i, e in m): 1 / c}
            return mul(num, inv)
        if not den:
            return _atom(t)
        if num == den:
            return const(1)
        # quotient by a proper polynomial: numerator times an opaque inverse atom
        inv = _atom(z3.RealVal(1) / ch[1])
        return mul(num, inv)
    if k == z3.Z3_OP_TO_REAL:
        return from_z3(ch[0])
    if k == z3.Z3_OP_POWER:
        e = _numeral(ch[1])
        if e is not None and e.denominator == 1 and 0 <= e <= 64:
            return power(from_z3(ch[0]), int(e))
    return _atom(t)


def from_value(x):
    from . import sym
    if isinstance(x, sym.Re):
        return from_z3(x.t)
    return const(sym.conc_of(x))


def key(p):
    return tuple(sorted(p.items()))


def monomials(p):
    return p


def leading_coeff(p):
    if not p:
        return Fraction(0)
    m = sorted(p.keys(), key=repr)[0]
    return p[m]


def is_zero_diff(a, b):
    """True if the z3 terms a and b are the same rational function"""
    try:
        d = add(from_z3(a), scale(from_z3(b), -1))
    except TooBig:
        return False
    return not d


def goal_is_ring_identity(goal):
    """goal: z3 Bool.  True iff it is a conjunction of equalities each of which is a ring
    identity (then it is valid regardless of hypotheses)."""
    if z3.is_true(goal):
        return True
    if z3.is_and(goal):
        return all(goal_is_ring_identity(c) for c in goal.children())
    if z3.is_eq(goal):
        a, b = goal.children()
        if z3.is_arith(a):
            return is_zero_diff(a, b)
    return False


def to_z3(p):
    """rebuild a z3 Real term from a canonical polynomial"""
    terms = []
    for m, c in sorted(p.items(), key=lambda kv: repr(kv[0])):
        t = z3.RealVal(str(c))
        for i, e in m:
            a = _ATOMS[i]
            if z3.is_int(a):
                a = z3.ToReal(a)
            for _ in range(abs(e)):
                t = t * a if e > 0 else t / a
        terms.append(t)
    if not terms:
        return z3.RealVal(0)
    return z3.Sum(terms) if len(terms) > 1 else terms[0]
