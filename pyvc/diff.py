"""Symbolic differentiation of executed terms (z3 arithmetic ASTs) with respect to one
variable, through the witnesses the engine introduces: sqrt/abs witnesses (r' = X'/(2r)), trig
atoms (cos' = -sin*arg', sin' = cos*arg'), log values (l' = arg'/arg).  Used by differential
contracts (C04 derivative, C06 closed-form length).  `If` is differentiated branch-wise, which is
the derivative away from the switching points."""
import z3
from . import sym
from .sym import Re


def _defs():
    c = sym.ctx()
    if not hasattr(c, 'wdefs'):
        c.wdefs = {}
    return c.wdefs


def register(const, kind, *data):
    _defs()[const.get_id()] = (kind,) + data
    sym.ctx().keep.append(const)


def contains(t, var, memo=None):
    memo = {} if memo is None else memo
    i = t.get_id()
    if i in memo:
        return memo[i]
    if t.eq(var):
        r = True
    elif z3.is_const(t):
        d = _defs().get(i)
        r = any(contains(x, var, memo) for x in d[1:] if isinstance(x, z3.ExprRef)) if d else False
    else:
        r = any(contains(ch, var, memo) for ch in t.children())
    memo[i] = r
    return r


def d(t, var, memo=None):
    """derivative of the z3 Real term t with respect to the z3 constant var"""
    memo = {} if memo is None else memo
    i = t.get_id()
    if i in memo:
        return memo[i]
    r = _d(t, var, memo)
    memo[i] = r
    return r


ZERO = z3.RealVal(0)
ONE = z3.RealVal(1)


def _d(t, var, memo):
    if z3.is_rational_value(t) or z3.is_int_value(t):
        return ZERO
    if t.eq(var):
        return ONE
    k = t.decl().kind()
    ch = t.children()
    if z3.is_const(t):
        df = _defs().get(t.get_id())
        if df is None:
            return ZERO
        kind = df[0]
        if kind == 'sqrt':
            X = df[1]
            if not contains(X, var):
                return ZERO
            return d(X, var, memo) / (2 * t)
        if kind == 'cos':       # (kind, arg, sin_const)
            if not contains(df[1], var):
                return ZERO
            return -df[2] * d(df[1], var, memo)
        if kind == 'sin':       # (kind, arg, cos_const)
            if not contains(df[1], var):
                return ZERO
            return df[2] * d(df[1], var, memo)
        if kind == 'log':
            if not contains(df[1], var):
                return ZERO
            return d(df[1], var, memo) / df[1]
        if kind == 'const':
            return ZERO
        raise ValueError("no derivative rule for witness kind %s" % kind)
    if k == z3.Z3_OP_ADD:
        return z3.Sum([d(c, var, memo) for c in ch])
    if k == z3.Z3_OP_SUB:
        r = d(ch[0], var, memo)
        for c in ch[1:]:
            r = r - d(c, var, memo)
        return r
    if k == z3.Z3_OP_UMINUS:
        return -d(ch[0], var, memo)
    if k == z3.Z3_OP_MUL:
        terms = []
        for j in range(len(ch)):
            dj = d(ch[j], var, memo)
            if z3.is_rational_value(dj) and dj.numerator_as_long() == 0:
                continue
            p = dj
            for m, c in enumerate(ch):
                if m != j:
                    p = p * c
            terms.append(p)
        return z3.Sum(terms) if terms else ZERO
    if k == z3.Z3_OP_DIV:
        a, b = ch
        da, db = d(a, var, memo), d(b, var, memo)
        return (da * b - a * db) / (b * b)
    if k == z3.Z3_OP_TO_REAL:
        return ZERO if not contains(ch[0], var) else _raise("derivative through ToReal")
    if k == z3.Z3_OP_ITE:
        return z3.If(ch[0], d(ch[1], var, memo), d(ch[2], var, memo))
    if k == z3.Z3_OP_POWER and z3.is_rational_value(ch[1]):
        n = ch[1].numerator_as_long()
        return n * ch[0] ** (n - 1) * d(ch[0], var, memo)
    if not contains(t, var):
        return ZERO
    raise ValueError("no derivative rule for %s" % t.decl())


def _raise(msg):
    raise ValueError(msg)


def ddt(value, var):
    """derivative of a Re / Cx / concrete value with respect to the Re variable `var`"""
    if isinstance(value, sym.Cx):
        return sym.Cx(ddt(value.re, var), ddt(value.im, var))
    if not isinstance(value, Re):
        return 0
    r = d(sym.zreal(value), var.t)
    r = z3.simplify(r, som=False)
    if z3.is_rational_value(r) and r.numerator_as_long() == 0:
        return 0
    return Re(r)
