"""Assumed models of builtins, math, numpy, itertools ... used by the repo code.
Everything in this file is part of the trusted base (DESIGN.md section 2, item 3)."""
import math
import re as _re
from fractions import Fraction
import itertools
import z3

from . import sym
from .sym import Re, Cx
from .explore import Unsupported
from . import interp as I


NUM = (int, Fraction, Re, Cx)


def _b(name, typ=None):
    def deco(fn):
        return I.Builtin(name, fn, typ)
    return deco


# ------------------------------------------------------------------ exceptions

_EXC_TREE = [
    ('BaseException', None), ('Exception', 'BaseException'), ('ArithmeticError', 'Exception'),
    ('ZeroDivisionError', 'ArithmeticError'), ('FloatingPointError', 'ArithmeticError'),
    ('OverflowError', 'ArithmeticError'),
    ('AssertionError', 'Exception'), ('AttributeError', 'Exception'), ('LookupError', 'Exception'),
    ('IndexError', 'LookupError'), ('KeyError', 'LookupError'), ('NameError', 'Exception'),
    ('ImportError', 'Exception'), ('RuntimeError', 'Exception'), ('NotImplementedError', 'RuntimeError'),
    ('TypeError', 'Exception'), ('ValueError', 'Exception'), ('StopIteration', 'Exception'),
    ('IOError', 'Exception'), ('OSError', 'Exception'), ('Warning', 'Exception'),
    ('RuntimeWarning', 'Warning'), ('DeprecationWarning', 'Warning'), ('UserWarning', 'Warning'),
]


# ------------------------------------------------------------------ poly1d / arrays

class CoefArr(object):
    """1-D numpy array of numbers (coefficients, roots, linspace)"""
    def __init__(self, items):
        self.items = list(items)

    @property
    def real(self):
        return CoefArr([sym.real_of(x) for x in self.items])

    @property
    def imag(self):
        return CoefArr([sym.imag_of(x) for x in self.items])

    def pyvc_iter(self, ip):
        return list(self.items)

    def pyvc_getitem(self, ip, idx):
        if isinstance(idx, slice):
            return CoefArr(self.items[idx])
        if not isinstance(idx, int):
            raise Unsupported("symbolic index into array")
        try:
            return self.items[idx]
        except IndexError:
            ip.raise_py('IndexError', 'index out of bounds')

    def pyvc_len(self, ip):
        return len(self.items)

    def pyvc_binop(self, ip, opn, other, refl):
        if isinstance(other, CoefArr):
            if len(other.items) != len(self.items):
                raise Unsupported("array broadcasting")
            pairs = zip(self.items, other.items)
        elif isinstance(other, NUM):
            pairs = [(x, other) for x in self.items]
        else:
            return NotImplemented
        out = []
        for x, y in pairs:
            if refl:
                x, y = y, x
            out.append(ip.num_binop(opn, x, y))
        return CoefArr(out)

    def pyvc_neg(self, ip):
        return CoefArr([sym.neg(x) for x in self.items])

    def __repr__(self):
        return 'CoefArr(%r)' % (self.items,)


class LazyCoefArr(CoefArr):
    """`poly.coeffs` before anyone looked at its length: numpy has already stripped leading
    zeros, which only matters to observers of the length / positions.  `.real`, `.imag` and
    np.poly1d(...) of it are value-preserving and do not force the decision."""
    def __init__(self, ip, poly, part=None):
        self.ip = ip
        self.poly = poly
        self.part = part
        self._items = None

    def _map(self, x):
        if self.part == 'real':
            return sym.real_of(x)
        if self.part == 'imag':
            return sym.imag_of(x)
        return x

    def raw(self):
        return [self._map(x) for x in self.poly.c]

    @property
    def items(self):
        if self._items is None:
            self._items = [self._map(x) for x in self.poly.strip(self.ip).c]
        return self._items

    @property
    def real(self):
        return LazyCoefArr(self.ip, self.poly, 'real') if self.part is None else (self if self.part == 'real' else CoefArr([0 for _ in self.items]))

    @property
    def imag(self):
        return LazyCoefArr(self.ip, self.poly, 'imag') if self.part is None else CoefArr([0 for _ in self.items])


def _is_conc_zero(x):
    if isinstance(x, (int, Fraction)):
        return x == 0
    if isinstance(x, Cx):
        return _is_conc_zero(x.re) and _is_conc_zero(x.im)
    return False


class Poly1d(object):
    """numpy.poly1d: coefficient list, highest power first.  Leading coefficients that are
    *concretely* zero are stripped as numpy does; symbolic leading coefficients are kept (value
    semantics are identical; `order`/`len` may then over-approximate numpy's)."""
    def __init__(self, coeffs):
        cs = list(coeffs)
        while len(cs) > 1 and _is_conc_zero(cs[0]):
            cs.pop(0)
        if not cs:
            cs = [0]
        self.c = cs

    def __repr__(self):
        return 'Poly1d(%r)' % (self.c,)

    @property
    def order(self):
        return len(self.c) - 1

    def strip(self, ip):
        """numpy strips leading zero coefficients at construction; decided here, at the first
        observation of the coefficient vector / order (forks on symbolic leading coefficients)"""
        while len(self.c) > 1:
            z = sym.eq(self.c[0], 0)
            if (z is True) or (not isinstance(z, bool) and ip.ctx.decide(z)):
                self.c = self.c[1:]
            else:
                break
        return self

    def horner(self, t):
        r = 0
        for c in self.c:
            r = sym.add(sym.mul(r, t), c)
        return r

    def pyvc_call(self, ip, args, kwargs):
        (t,) = args
        if isinstance(t, Poly1d):
            raise Unsupported("polynomial composition")
        if isinstance(t, (list, tuple, CoefArr)):
            return CoefArr([self.horner(x) for x in ip.iterate(t)])
        if not isinstance(t, NUM):
            raise Unsupported("poly1d called on %r" % (t,))
        return self.horner(t)

    def pyvc_getitem(self, ip, k):
        # p[k] is the coefficient of t**k; 0 beyond the degree; negative -> 0
        if not isinstance(k, int):
            raise Unsupported("symbolic poly1d index")
        if k < 0 or k > self.order:
            return 0
        return self.c[len(self.c) - 1 - k]

    def pyvc_len(self, ip):
        return self.strip(ip).order

    def pyvc_iter(self, ip):
        return list(self.strip(ip).c)

    def _coerce(self, other):
        if isinstance(other, Poly1d):
            return other
        if isinstance(other, NUM):
            return Poly1d([other])
        if isinstance(other, (list, tuple, CoefArr)):
            items = other.items if isinstance(other, CoefArr) else list(other)
            return Poly1d(items)
        return None

    def pyvc_binop(self, ip, opn, other, refl):
        if opn == 'Pow' and not refl:
            if not isinstance(other, int) or other < 0:
                raise Unsupported("poly1d power")
            r = Poly1d([1])
            for _ in range(other):
                r = r._mul(self)
            return r
        if opn == 'Div' and not refl and isinstance(other, NUM):
            ip.check_nonzero(other)
            return Poly1d([sym.div(c, other) for c in self.c])
        o = self._coerce(other)
        if o is None:
            return NotImplemented
        a, b = (o, self) if refl else (self, o)
        if opn == 'Add':
            return a._add(b)
        if opn == 'Sub':
            return a._add(b._scale(-1))
        if opn == 'Mult':
            return a._mul(b)
        raise Unsupported("poly1d operator %s" % opn)

    def pyvc_neg(self, ip):
        return self._scale(-1)

    def _scale(self, k):
        return Poly1d([sym.mul(c, k) for c in self.c])

    def _add(self, o):
        n = max(len(self.c), len(o.c))
        a = [0] * (n - len(self.c)) + self.c
        b = [0] * (n - len(o.c)) + o.c
        return Poly1d([sym.add(x, y) for x, y in zip(a, b)])

    def _mul(self, o):
        out = [0] * (len(self.c) + len(o.c) - 1)
        for i, x in enumerate(self.c):
            for j, y in enumerate(o.c):
                out[i + j] = sym.add(out[i + j], sym.mul(x, y))
        return Poly1d(out)

    def deriv(self, m=1):
        c = self.c
        for _ in range(m):
            n = len(c) - 1
            c = [sym.mul(x, n - i) for i, x in enumerate(c[:-1])] or [0]
        return Poly1d(c)

    def integ(self):
        n = len(self.c)
        return Poly1d([sym.div(x, n - i) for i, x in enumerate(self.c)] + [0])

    def pyvc_eq(self, ip, other):
        o = self._coerce(other) if isinstance(other, Poly1d) else None
        if o is None:
            return False
        n = max(len(self.c), len(o.c))
        a = [0] * (n - len(self.c)) + self.c
        b = [0] * (n - len(o.c)) + o.c
        return sym.And(*[sym.eq(x, y) for x, y in zip(a, b)])


def poly_getattr(ip, p, name):
    if name in ('coeffs', 'coefficients', 'c', 'coef'):
        return LazyCoefArr(ip, p)
    if name == 'order' or name == 'o':
        return p.strip(ip).order
    if name == 'deriv':
        return I.Builtin('poly1d.deriv', lambda ip, a, k: p.deriv(*(a or [k.get('m', 1)])))
    if name == 'integ':
        return I.Builtin('poly1d.integ', lambda ip, a, k: p.integ())
    if name in ('roots', 'r'):
        return np_roots(ip, [p], {})
    ip.raise_py('AttributeError', "poly1d has no attribute %s" % name)


class NDArr(object):
    """small dense 2-D numpy array (nested lists of numbers)"""
    def __init__(self, rows):
        self.rows = [list(r) for r in rows]

    @property
    def shape(self):
        return (len(self.rows), len(self.rows[0]) if self.rows else 0)

    def copy(self):
        return NDArr(self.rows)

    def __repr__(self):
        return 'NDArr(%r)' % (self.rows,)

    def pyvc_getitem(self, ip, idx):
        if isinstance(idx, int):
            return CoefArrRow(self, idx)
        if isinstance(idx, tuple) and len(idx) == 2:
            r, c = idx
            if isinstance(r, int) and isinstance(c, int):
                return self.rows[r][c]
            rs = range(*r.indices(len(self.rows))) if isinstance(r, slice) else [r]
            sub = []
            for i in rs:
                row = self.rows[i]
                sub.append(row[c] if isinstance(c, slice) else [row[c]])
            if isinstance(r, int):
                return CoefArr(sub[0])
            if isinstance(c, int):
                return CoefArr([x[0] for x in sub])
            return NDArr(sub)
        raise Unsupported("ndarray index %r" % (idx,))

    def pyvc_setitem(self, ip, idx, v):
        if isinstance(idx, tuple) and len(idx) == 2:
            r, c = idx
            if isinstance(r, int) and isinstance(c, int):
                self.rows[r][c] = v
                return
            rs = list(range(*r.indices(len(self.rows)))) if isinstance(r, slice) else [r]
            ncol = len(self.rows[0])
            cs = list(range(*c.indices(ncol))) if isinstance(c, slice) else [c]
            vals = to_rows(ip, v)
            if len(vals) != len(rs) or any(len(x) != len(cs) for x in vals):
                raise Unsupported("ndarray slice assignment shape")
            for i, row in zip(rs, vals):
                for j, x in zip(cs, row):
                    self.rows[i][j] = x
            return
        raise Unsupported("ndarray assignment index %r" % (idx,))

    def pyvc_iter(self, ip):
        return [CoefArrRow(self, i) for i in range(len(self.rows))]

    def pyvc_len(self, ip):
        return len(self.rows)

    def dot(self, other):
        if isinstance(other, NDArr):
            n, k = self.shape
            k2, m = other.shape
            if k != k2:
                raise Unsupported("matmul shape mismatch")
            out = []
            for i in range(n):
                row = []
                for j in range(m):
                    s = 0
                    for l in range(k):
                        s = sym.add(s, sym.mul(self.rows[i][l], other.rows[l][j]))
                    row.append(s)
                out.append(row)
            return NDArr(out)
        raise Unsupported("dot with %r" % (other,))

    @property
    def T(self):
        n, m = self.shape
        return NDArr([[self.rows[i][j] for i in range(n)] for j in range(m)])

    def pyvc_binop(self, ip, opn, other, refl):
        if isinstance(other, NDArr):
            if other.shape != self.shape:
                raise Unsupported("array broadcasting")
            out = []
            for ra, rb in zip(self.rows, other.rows):
                out.append([ip.num_binop(opn, y, x) if refl else ip.num_binop(opn, x, y) for x, y in zip(ra, rb)])
            return NDArr(out)
        if isinstance(other, NUM):
            return NDArr([[ip.num_binop(opn, other, x) if refl else ip.num_binop(opn, x, other) for x in r] for r in self.rows])
        return NotImplemented

    def pyvc_eq(self, ip, other):
        if isinstance(other, NDArr) and other.shape == self.shape:
            return BoolArr([[sym.eq(x, y) for x, y in zip(ra, rb)] for ra, rb in zip(self.rows, other.rows)])
        return NotImplemented


class CoefArrRow(CoefArr):
    """a row view of an NDArr (writes go through)"""
    def __init__(self, arr, i):
        self.arr = arr
        self.i = i

    @property
    def items(self):
        return self.arr.rows[self.i]

    def pyvc_setitem(self, ip, idx, v):
        self.arr.rows[self.i][idx] = v


class BoolArr(object):
    def __init__(self, rows):
        self.rows = rows

    def ravel(self):
        return [x for r in self.rows for x in r]


def to_rows(ip, v):
    if isinstance(v, NDArr):
        return [list(r) for r in v.rows]
    rows = []
    for r in ip.iterate(v):
        if isinstance(r, NUM):
            rows.append([r])
        else:
            rows.append(list(ip.iterate(r)))
    return rows


def ndarr_getattr(ip, a, name):
    if name == 'dot':
        return I.Builtin('ndarray.dot', lambda ip, args, k: a.dot(args[0]))
    if name == 'T':
        return a.T
    if name == 'copy':
        return I.Builtin('ndarray.copy', lambda ip, args, k: a.copy())
    if name == 'item':
        def item(ip, args, k):
            flat = [x for r in a.rows for x in r]
            return flat[args[0]]
        return I.Builtin('ndarray.item', item)
    if name == 'shape':
        return a.shape
    if name == 'ravel':
        return I.Builtin('ndarray.ravel', lambda ip, args, k: CoefArr([x for r in a.rows for x in r]))
    if name == 'tolist':
        return I.Builtin('ndarray.tolist', lambda ip, args, k: [list(r) for r in a.rows])
    ip.raise_py('AttributeError', 'ndarray has no attribute %s' % name)


# ------------------------------------------------------------------ number functions

def real_sqrt(ip, x):
    """sqrt of a real in the real-number model: defined for x >= 0 only"""
    if isinstance(x, (int, Fraction)):
        if x < 0:
            raise I.Undefined("sqrt of negative number")
        return sym.sqrt_w(x)
    c = sym.lt(x, 0)
    if ip.ctx.decide(c):
        raise I.Undefined("sqrt of negative number")
    return sym.sqrt_w(x)


def complex_sqrt(ip, z):
    """principal square root of a complex number: w*w == z, Re w >= 0, (Re w == 0 => Im w >= 0)"""
    z = sym.to_cx(z)
    if z.is_concrete() and z.im == 0:
        if z.re >= 0:
            return Cx(sym.sqrt_w(z.re), 0)
        return Cx(0, sym.sqrt_w(-z.re))
    c = ip.ctx
    key = ('csqrt', repr(z))
    if key in c.witness:
        return c.witness[key]
    wr, wi = c.fresh_real('csqrt_re'), c.fresh_real('csqrt_im')
    w = Cx(wr, wi)
    sq = sym.mul(w, w)
    c.fact(sym.zbool(sym.And(sym.eq(sq, z), sym.le(0, wr), sym.Implies(sym.eq(wr, 0), sym.le(0, wi)))))
    c.witness[key] = w
    return w


def np_sqrt(ip, args, kwargs):
    (x,) = args
    if isinstance(x, I.NF):
        return x if x.kind == 'pinf' else I.NF('nan')
    if isinstance(x, Cx):
        return complex_sqrt(ip, x)
    if isinstance(x, (int, Fraction, Re)):
        return real_sqrt(ip, x)
    if isinstance(x, (CoefArr, list, tuple)):
        return CoefArr([np_sqrt(ip, [y], {}) for y in ip.iterate(x)])
    raise Unsupported("sqrt of %r" % (x,))


def sym_pow(ip, a, n):
    """a ** n for a symbolic integer n: uninterpreted, with unfolding facts added on demand"""
    f = z3.Function('pw', z3.RealSort(), z3.IntSort(), z3.RealSort())
    if isinstance(a, Cx):
        raise Unsupported("complex ** symbolic int")
    za = sym.zreal(a)
    r = Re(f(za, n.t))
    # unfolding instance: a**n == a * a**(n-1) for n >= 1, a**0 == 1
    ip.ctx.fact(z3.And(z3.Implies(n.t >= 1, f(za, n.t) == za * f(za, n.t - 1)), f(za, z3.IntVal(0)) == 1))
    from . import diff
    diff.register(r.t, 'const') if z3.is_const(r.t) else None
    return r


def _trig(ip, fname, x):
    """uninterpreted transcendental function application with axiom instances (DESIGN.md 1.6)"""
    from . import trig
    if isinstance(x, I.NF):
        if fname == 'log' and x.kind == 'pinf':
            return I.NF('pinf')
        return I.NF('nan')
    if fname == 'log' and ip.numpy_floats and isinstance(x, (int, Fraction, Re)):
        z = sym.le(x, 0)
        if (z is True) or (not isinstance(z, bool) and ip.ctx.decide(z)):
            z0 = sym.eq(x, 0)
            if (z0 is True) or (not isinstance(z0, bool) and ip.ctx.decide(z0)):
                return I.NF('ninf')
            return I.NF('nan')
    return trig.apply(ip, fname, x)


def _mk_trig(fname):
    def fn(ip, args, kwargs):
        (x,) = args
        if isinstance(x, (CoefArr, list, tuple)):
            return CoefArr([_trig(ip, fname, y) for y in ip.iterate(x)])
        return _trig(ip, fname, x)
    return I.Builtin(fname, fn)


def py_abs(ip, args, kwargs):
    (x,) = args
    if isinstance(x, I.NF):
        return x if x.kind == 'nan' else I.NF('pinf')
    if isinstance(x, bool):
        return int(x)
    if isinstance(x, NUM):
        return sym.absv(x)
    if isinstance(x, sym.INF_T):
        return sym.INF
    if isinstance(x, (CoefArr,)):
        return CoefArr([sym.absv(y) for y in x.items])
    if isinstance(x, I.Obj):
        f = x.cls.lookup('__abs__')
        if f is not I._MISSING:
            return ip.call(I.BoundMethod(f, x), [], {})
    ip.raise_py('TypeError', "bad operand type for abs(): %s" % I._tn(x))


def np_roots(ip, args, kwargs):
    raise Unsupported("numpy.roots has no executable model; a contract must supply the root list")


def np_isclose(ip, args, kwargs):
    a, b = args[0], args[1]
    rtol = kwargs.get('rtol', args[2] if len(args) > 2 else Fraction(1, 10**5))
    atol = kwargs.get('atol', args[3] if len(args) > 3 else Fraction(1, 10**8))
    d = sym.absv(sym.sub(a, b))
    return sym.le(d, sym.add(atol, sym.mul(rtol, sym.absv(b))))


def np_allclose(ip, args, kwargs):
    """numpy.allclose(a, b): every |a_k - b_k| <= atol + rtol*|b_k| (element-wise, same shape or
    a scalar against an array)"""
    a, b = args[0], args[1]
    rtol = kwargs.get('rtol', args[2] if len(args) > 2 else Fraction(1, 10**5))
    atol = kwargs.get('atol', args[3] if len(args) > 3 else Fraction(1, 10**8))

    def flat(v):
        if isinstance(v, NDArr):
            return [x for r in v.rows for x in r]
        if isinstance(v, (list, tuple, CoefArr)):
            out = []
            for x in ip.iterate(v):
                out += flat(x) if isinstance(x, (list, tuple, NDArr, CoefArr)) else [x]
            return out
        return None
    fa, fb = flat(a), flat(b)
    if fa is None and fb is None:
        fa, fb = [a], [b]
    elif fa is None:
        fa = [a] * len(fb)
    elif fb is None:
        fb = [b] * len(fa)
    if len(fa) != len(fb):
        raise Unsupported("numpy.allclose with broadcasting")
    return sym.And(*[sym.le(sym.absv(sym.sub(x, y)), sym.add(atol, sym.mul(rtol, sym.absv(y)))) for x, y in zip(fa, fb)])


def np_clip(ip, args, kwargs):
    x, lo, hi = args
    return sym.If(sym.lt(x, lo), lo, sym.If(sym.lt(hi, x), hi, x))


def np_interp(ip, args, kwargs):
    """numpy.interp(x, xp, fp) for concrete-length, increasing xp: piecewise linear inside,
    CLAMPED to fp[0] / fp[-1] outside [xp[0], xp[-1]] (numpy's default left/right)"""
    x, xp, fp = args[0], ip.iterate(args[1]), ip.iterate(args[2])
    if len(xp) != len(fp) or len(xp) < 1 or 'left' in kwargs or 'right' in kwargs or 'period' in kwargs:
        raise Unsupported("numpy.interp in this form")

    def one(t):
        r = fp[-1]
        for k in range(len(xp) - 2, -1, -1):
            a, b, fa, fb = xp[k], xp[k + 1], fp[k], fp[k + 1]
            inside = sym.add(fa, sym.mul(sym.div(sym.sub(t, a), sym.sub(b, a)), sym.sub(fb, fa)))
            r = sym.If(sym.lt(t, b), inside, r)
        return sym.If(sym.le(t, xp[0]), fp[0], r)
    if isinstance(x, (list, tuple)) or hasattr(x, 'rows') or isinstance(x, CoefArr):
        return CoefArr([one(t) for t in ip.iterate(x)])
    return one(x)


def np_vdot(ip, args, kwargs):
    """numpy.vdot(a, b) = sum(conj(a_k) * b_k)  (the FIRST argument is conjugated)"""
    a, b = ip.iterate(args[0]), ip.iterate(args[1])
    if len(a) != len(b):
        ip.raise_py('ValueError', 'cannot reshape')
    r = 0
    for x, y in zip(a, b):
        xc = sym.Cx(sym.real_of(x), sym.neg(sym.imag_of(x))) if isinstance(x, Cx) else x
        r = sym.add(r, sym.mul(xc, y))
    return r


def np_cumsum(ip, args, kwargs):
    """numpy.cumsum of a flat sequence of numbers: the running sums, as a 1-d array"""
    if kwargs or len(args) != 1:
        raise Unsupported("numpy.cumsum with axis/dtype/out")
    items = ip.iterate(args[0])
    if not all(isinstance(x, NUM) for x in items):
        raise Unsupported("numpy.cumsum of a nested sequence")
    out, r = [], 0
    for x in items:
        r = sym.add(r, x)
        out.append(r)
    return CoefArr(out)


def _bisect(right):
    """bisect.bisect_right / bisect_left as CPython's Lib/bisect.py runs them: the binary search
    itself (so an unsorted list gives what CPython gives), each comparison a decision of the
    explored path"""
    def f(ip, args, kwargs):
        if kwargs.get('key') is not None:
            raise Unsupported("bisect with key=")
        a, x = ip.iterate(args[0]), args[1]
        lo = args[2] if len(args) > 2 else kwargs.get('lo', 0)
        hi = args[3] if len(args) > 3 else kwargs.get('hi', None)
        if not isinstance(lo, int) or not (hi is None or isinstance(hi, int)):
            raise Unsupported("bisect with symbolic lo/hi")
        if lo < 0:
            ip.raise_py('ValueError', 'lo must be non-negative')
        if hi is None:
            hi = len(a)
        while lo < hi:
            mid = (lo + hi) // 2
            if ip.branch(sym.lt(x, a[mid]) if right else sym.lt(a[mid], x)):
                if right:
                    hi = mid
                else:
                    lo = mid + 1
            else:
                if right:
                    lo = mid + 1
                else:
                    hi = mid
        return lo
    return f


def np_array(ip, args, kwargs):
    v = args[0]
    items = ip.iterate(v)
    if items and all(isinstance(x, NUM) for x in items):
        return CoefArr(items)
    return NDArr(to_rows(ip, v))


def np_identity(ip, args, kwargs):
    n = args[0]
    return NDArr([[1 if i == j else 0 for j in range(n)] for i in range(n)])


def np_inv(ip, args, kwargs):
    (m,) = args
    if not isinstance(m, NDArr) or m.shape != (2, 2):
        raise Unsupported("linalg.inv of non-2x2")
    (a, b), (c, d) = m.rows
    det = sym.sub(sym.mul(a, d), sym.mul(b, c))
    z = sym.eq(det, 0)
    if ip.branch(z):
        ip.raise_py('Exception', 'LinAlgError: Singular matrix')
    return NDArr([[sym.div(d, det), sym.div(sym.neg(b), det)], [sym.div(sym.neg(c), det), sym.div(a, det)]])


def np_matmul(ip, args, kwargs):
    a, b = args
    return a.dot(b)


def np_linspace(ip, args, kwargs):
    a, b, n = args[0], args[1], args[2] if len(args) > 2 else kwargs.get('num', 50)
    if not isinstance(n, int):
        raise Unsupported("linspace with symbolic count")
    if n == 1:
        return CoefArr([a])
    return CoefArr([sym.add(a, sym.div(sym.mul(sym.sub(b, a), i), n - 1)) for i in range(n)])


def np_poly1d(ip, args, kwargs):
    v = args[0]
    if isinstance(v, LazyCoefArr) and v._items is None:
        return Poly1d(v.raw())
    if isinstance(v, Poly1d):
        return Poly1d(v.c)
    if isinstance(v, NUM):
        return Poly1d([v])
    return Poly1d(ip.iterate(v))


def np_degrees(ip, args, kwargs):
    from . import trig
    return sym.div(sym.mul(args[0], 180), trig.PI())


def np_radians(ip, args, kwargs):
    from . import trig
    return sym.div(sym.mul(args[0], trig.PI()), 180)


def np_isnan(ip, args, kwargs):
    # real-number model: every value is a number, except the explicit non-finite values
    if isinstance(args[0], I.NF):
        return args[0].kind == 'nan'
    return False


def np_ceil(ip, args, kwargs):
    (x,) = args
    if isinstance(x, (int, Fraction)):
        return Fraction(math.ceil(x))
    raise Unsupported("ceil of a symbolic value")


def np_exp(ip, args, kwargs):
    (x,) = args
    from . import trig
    if isinstance(x, Cx):
        z = sym.eq(x.re, 0)
        if z is True:
            return Cx(trig.apply(ip, 'cos', x.im), trig.apply(ip, 'sin', x.im))
    if isinstance(x, (int, Fraction)) and x == 0:
        return 1
    raise Unsupported("exp of %r" % (x,))


def np_angle(ip, args, kwargs):
    raise Unsupported("numpy.angle (phase) is not modelled")


def np_seterr(ip, args, kwargs):
    return {}


def np_eig(ip, args, kwargs):
    raise Unsupported("numpy.linalg.eig has no executable model")


def make_numpy(ip):
    from . import trig
    ns = {}
    ns['sqrt'] = I.Builtin('sqrt', np_sqrt)
    for f in ('cos', 'sin', 'tan', 'arccos', 'arcsin', 'arctan', 'log'):
        ns[f] = _mk_trig(f)
    ns['degrees'] = I.Builtin('degrees', np_degrees)
    ns['radians'] = I.Builtin('radians', np_radians)
    ns['pi'] = trig.PI()
    ns['inf'] = sym.INF
    ns['ceil'] = I.Builtin('ceil', np_ceil)
    ns['exp'] = I.Builtin('exp', np_exp)
    ns['angle'] = I.Builtin('angle', np_angle)
    ns['isnan'] = I.Builtin('isnan', np_isnan)
    ns['isfinite'] = I.Builtin('isfinite', lambda ip, a, k: not isinstance(a[0], I.NF))
    ns['isclose'] = I.Builtin('isclose', np_isclose)
    ns['allclose'] = I.Builtin('allclose', np_allclose)
    ns['clip'] = I.Builtin('clip', np_clip)
    ns['interp'] = I.Builtin('interp', np_interp)
    ns['array'] = I.Builtin('array', np_array)
    ns['cumsum'] = I.Builtin('cumsum', np_cumsum)
    ns['identity'] = I.Builtin('identity', np_identity)
    ns['eye'] = I.Builtin('eye', np_identity)
    ns['matmul'] = I.Builtin('matmul', np_matmul)
    ns['dot'] = I.Builtin('dot', np_matmul)
    ns['vdot'] = I.Builtin('vdot', np_vdot)
    ns['linspace'] = I.Builtin('linspace', np_linspace)
    ns['poly1d'] = I.Builtin('poly1d', np_poly1d, typ=lambda v: isinstance(v, Poly1d))
    ns['roots'] = I.Builtin('roots', lambda ip, a, k: ip.call(ip.np_roots_model, a, k))
    ns['seterr'] = I.Builtin('seterr', np_seterr)
    ns['abs'] = I.Builtin('abs', py_abs)
    ns['cos'] = ns['cos']
    ns['linalg'] = I.Namespace('numpy.linalg', {'inv': I.Builtin('inv', np_inv),
                                                 'eig': I.Builtin('eig', lambda ip, a, k: ip.call(ip.np_eig_model, a, k))})
    ns['ndarray'] = I.Builtin('ndarray', None, typ=lambda v: isinstance(v, (NDArr, CoefArr)))
    return I.Namespace('numpy', ns)


def make_math(ip):
    from . import trig
    ns = {}

    def fac(ip, args, kwargs):
        (n,) = args
        if not isinstance(n, int):
            raise Unsupported("factorial of non-concrete")
        if n < 0:
            ip.raise_py('ValueError', 'factorial() not defined for negative values')
        return math.factorial(n)
    ns['factorial'] = I.Builtin('factorial', fac)
    ns['sqrt'] = I.Builtin('sqrt', np_sqrt)
    ns['ceil'] = I.Builtin('ceil', lambda ip, a, k: int(np_ceil(ip, a, k)))
    for f, g in (('cos', 'cos'), ('sin', 'sin'), ('tan', 'tan'), ('acos', 'arccos'), ('asin', 'arcsin'),
                 ('atan', 'arctan'), ('log', 'log')):
        ns[f] = _mk_trig(g)
    ns['pi'] = trig.PI()
    ns['degrees'] = I.Builtin('degrees', np_degrees)
    ns['radians'] = I.Builtin('radians', np_radians)
    ns['isnan'] = I.Builtin('isnan', np_isnan)
    return I.Namespace('math', ns)


class NativeObj(object):
    """a concrete Python object used through its own methods with concrete arguments only"""
    def __init__(self, v):
        self.v = v

    def __repr__(self):
        return 'Native(%r)' % (self.v,)


def _to_native(ip, x):
    if isinstance(x, NativeObj):
        return x.v
    if isinstance(x, (str, int, bool, type(None), bytes)):
        return x
    if isinstance(x, Fraction):
        return float(x)
    if isinstance(x, (list, tuple)):
        return type(x)(_to_native(ip, y) for y in x)
    raise Unsupported("native call with non-concrete argument %r" % (x,))


def _from_native(v):
    if isinstance(v, float):
        return Fraction(repr(v))
    if isinstance(v, (str, int, bool, type(None))):
        return v
    if isinstance(v, (list, tuple)):
        return type(v)(_from_native(x) for x in v)
    if isinstance(v, _re.Pattern) or isinstance(v, _re.Match):
        return NativeObj(v)
    return NativeObj(v)


def native_call(fn, name):
    def call(ip, args, kwargs):
        try:
            r = fn(*[_to_native(ip, a) for a in args], **{k: _to_native(ip, v) for k, v in kwargs.items()})
        except Unsupported:
            raise
        except Exception as e:
            cls = type(e).__name__
            if cls in ip.builtins:
                ip.raise_py(cls, str(e))
            ip.raise_py('Exception', str(e))
        return _from_native(r)
    return I.Builtin(name, call)


def import_module(ip, name):
    top = name.split('.')[0]
    if top == 'numpy':
        m = ip.__dict__.get('_numpy')
        if m is None:
            m = ip._numpy = make_numpy(ip)
        return m
    if name == 'math':
        return make_math(ip)
    if name == 're':
        return I.Namespace('re', {'compile': native_call(_re.compile, 're.compile')})
    if name == 'warnings':
        return I.Namespace('warnings', {'warn': ip.builtins['__warn__']})
    if name == 'operator':
        return I.Namespace('operator', {'itemgetter': I.Builtin('itemgetter', _itemgetter)})
    if name == 'itertools':
        return I.Namespace('itertools', {'tee': I.Builtin('tee', _tee), 'combinations': I.Builtin('combinations', _combinations),
                                         'chain': I.Builtin('chain', lambda ip, a, k: I.IterV([x for it in a for x in ip.iterate(it)]))})
    if name == 'functools':
        return I.Namespace('functools', {'reduce': I.Builtin('reduce', _reduce)})
    if name in ('collections.abc', 'collections'):
        return I.Namespace(name, {'MutableSequence': mutable_sequence_class(ip),
                                  'namedtuple': I.Builtin('namedtuple', _namedtuple)})
    if name == 'scipy.integrate':
        return I.Namespace(name, {'quad': I.Builtin('quad', lambda ip, a, k: ip.call(ip.quad_model, a, k))})
    if name == 'sys':
        return I.Namespace('sys', {'platform': 'linux'})
    if name == 'bisect':
        r, l = I.Builtin('bisect_right', _bisect(True)), I.Builtin('bisect_left', _bisect(False))
        return I.Namespace('bisect', {'bisect': r, 'bisect_right': r, 'bisect_left': l})
    if name in ('xml.etree.ElementTree', 'xml.etree', 'xml'):
        return etree_namespace(ip)
    return I.Opaque(name)


SVG_NS = '{http://www.w3.org/2000/svg}'


def etree_namespace(ip):
    """assumed model of xml.etree.ElementTree (DESIGN.md section 2): Element.get, and
    iterfind('svg:x', ns) yields the children whose tag is '{ns}x' in document order; iter()
    yields the element and its descendants in document order"""
    ns = ip.__dict__.get('_etree_ns')
    if ns is not None:
        return ns

    def m(fn):
        b = I.Builtin(fn.__name__, fn)
        b.is_method = True
        return b

    def get(ip_, a, k):
        e = a[0]
        return e.attrs['attrib'].get(a[1], a[2] if len(a) > 2 else k.get('default'))

    def iterfind(ip_, a, k):
        e, path = a[0], a[1]
        nsmap = a[2] if len(a) > 2 else k.get('namespaces', {})
        pre, _, local = path.partition(':')
        tag = '{%s}%s' % (nsmap[pre], local) if local else path
        return I.IterV([ch for ch in e.attrs['children'] if ch.attrs['tag'] == tag])

    def iter_(ip_, a, k):
        out = []

        def walk(e):
            out.append(e)
            for ch in e.attrs['children']:
                walk(ch)
        walk(a[0])
        return I.IterV(out)
    cls = I.ClassV('Element', [], {'get': m(get), 'iterfind': m(iterfind), 'iter': m(iter_)}, 'xml.etree.ElementTree.Element')
    ns = I.Namespace('xml.etree.ElementTree', {
        'Element': cls, 'SubElement': I.Opaque('SubElement'), 'ElementTree': I.Opaque('ElementTree'),
        'register_namespace': I.Builtin('register_namespace', lambda ip_, a, k: None),
        'iterparse': I.Builtin('iterparse', lambda ip_, a, k: ip_.call(ip_.iterparse_model, a, k)),
        'etree': None})
    ns.attrs['etree'] = ns
    ns.attrs['ElementTree'] = ns   # `import xml.etree.ElementTree as etree`
    ip._etree_ns = ns
    return ns


def make_element(ip, local, attrib=None, children=()):
    ns = etree_namespace(ip)
    e = I.Obj(ns.attrs['Element'])
    e.attrs.update(tag=SVG_NS + local, attrib=dict(attrib or {}), children=list(children))
    return e


def _itemgetter(ip, args, kwargs):
    (k,) = args
    return I.Builtin('itemgetter(%r)' % (k,), lambda ip, a, kw: ip.getitem(a[0], k))


def _tee(ip, args, kwargs):
    items = ip.iterate(args[0])
    n = args[1] if len(args) > 1 else 2
    return tuple(I.IterV(items) for _ in range(n))


def _combinations(ip, args, kwargs):
    items = ip.iterate(args[0])
    return I.IterV([tuple(c) for c in itertools.combinations(items, args[1])])


def _reduce(ip, args, kwargs):
    f, seq = args[0], ip.iterate(args[1])
    if len(args) > 2:
        acc = args[2]
    else:
        acc = seq.pop(0)
    for x in seq:
        acc = ip.call(f, [acc, x], {})
    return acc


def _namedtuple(ip, args, kwargs):
    name, fields = args
    if isinstance(fields, str):
        fields = fields.replace(',', ' ').split()
    fields = list(fields)
    attrs = {}

    def init(ip_, a, kw):
        o = a[0]
        for f, v in zip(fields, a[1:]):
            o.attrs[f] = v
        for k, v in kw.items():
            o.attrs[k] = v

    def m(fn):
        b = I.Builtin(fn.__name__, fn)
        b.is_method = True
        return b

    def __iter__(ip_, a, kw):
        return I.IterV([a[0].attrs[f] for f in fields])

    def __getitem__(ip_, a, kw):
        return [a[0].attrs[f] for f in fields][a[1]]

    def __len__(ip_, a, kw):
        return len(fields)
    attrs['__init__'] = I.Builtin('__init__', init)
    attrs['__iter__'] = m(__iter__)
    attrs['__getitem__'] = m(__getitem__)
    attrs['__len__'] = m(__len__)
    return I.ClassV(name, [], attrs, 'collections.' + name)


_MS_CACHE = {}


def mutable_sequence_class(ip):
    """collections.abc.MutableSequence: the mix-in methods are taken from CPython's own source
    (_collections_abc.py) and executed by the interpreter like repo code."""
    c = ip.__dict__.get('_ms_class')
    if c is not None:
        return c
    import ast
    import inspect
    import _collections_abc
    if 'tree' not in _MS_CACHE:
        _MS_CACHE['tree'] = ast.parse(inspect.getsource(_collections_abc))
    tree = _MS_CACHE['tree']
    m = I.ModuleNS('_collections_abc')
    m.vars['__name__'] = '_collections_abc'
    wanted = {'Sequence': ['__iter__', '__contains__', '__reversed__', 'index', 'count'],
              'MutableSequence': ['append', 'clear', 'reverse', 'extend', 'pop', 'remove', '__iadd__']}
    classes = {}
    for node in tree.body:
        if isinstance(node, ast.ClassDef) and node.name in wanted:
            attrs = {}
            for s in node.body:
                if isinstance(s, ast.FunctionDef) and s.name in wanted[node.name]:
                    env = I.Env(m.vars, None, m)
                    attrs[s.name] = I.Func(s, m, None, '_collections_abc.%s.%s' % (node.name, s.name),
                                           [ip.eval(d, env) for d in s.args.defaults], [])
            bases = [classes['Sequence']] if node.name == 'MutableSequence' else []
            classes[node.name] = I.ClassV(node.name, bases, attrs, '_collections_abc.' + node.name)
    ip._ms_class = classes['MutableSequence']
    return ip._ms_class


def list_class(ip):
    raise Unsupported("subclass of list")


# ------------------------------------------------------------------ strings

def fmt_value(ip, v, spec=''):
    # LEX (a formatted number reads back as the same number) is assumed for str()/repr()/'{}' only:
    # a format specification such as :g, :.3f or :e rounds, so nothing is assumed about it
    if spec not in ('', 'r', 's', 'd') and not isinstance(v, str):       # 'd' prints an integer exactly
        raise Unsupported("number formatted with the lossy specification %r" % (spec,))
    if isinstance(v, str):
        return v
    if isinstance(v, I.TokStr):
        return v
    if isinstance(v, bool) or v is None:
        return str(v)
    if isinstance(v, z3.BoolRef):
        return I.Num(v, spec)
    if isinstance(v, (int, Fraction, Re)):
        return I.Num(v, spec)
    if isinstance(v, Cx):
        return I.Num(v, spec)
    return I.Num(v, spec)


def tok_norm(ts):
    """a token string whose parts are all literal is a plain str"""
    if all(isinstance(p, str) for p in ts.parts):
        return ''.join(ts.parts)
    return ts


_FMT_RE = _re.compile(r'\{([^{}:!]*)(?:![rsa])?(?::([^{}]*))?\}|\{\{|\}\}')


def str_format(ip, fmt, args, kwargs):
    parts = []
    pos = 0
    auto = 0
    for mt in _FMT_RE.finditer(fmt):
        parts.append(fmt[pos:mt.start()])
        pos = mt.end()
        tok = mt.group(0)
        if tok == '{{':
            parts.append('{')
            continue
        if tok == '}}':
            parts.append('}')
            continue
        field = mt.group(1) or ''
        spec = mt.group(2) or ''
        if field == '':
            v = args[auto]
            auto += 1
        elif field.isdigit():
            v = args[int(field)]
        else:
            v = kwargs[field]
        fv = fmt_value(ip, v, spec)
        if isinstance(fv, I.TokStr):
            parts.extend(fv.parts)
        else:
            parts.append(fv)
    parts.append(fmt[pos:])
    return tok_norm(I.TokStr(parts))


def percent_format(ip, fmt, arg):
    args = list(arg) if isinstance(arg, tuple) else [arg]
    parts = []
    pos = 0
    i = 0
    for mt in _re.finditer(r'%(?:\.\d+)?[sdrfg]|%%', fmt):
        parts.append(fmt[pos:mt.start()])
        pos = mt.end()
        if mt.group(0) == '%%':
            parts.append('%')
            continue
        fv = fmt_value(ip, args[i])
        i += 1
        if isinstance(fv, I.TokStr):
            parts.extend(fv.parts)
        else:
            parts.append(fv)
    parts.append(fmt[pos:])
    return tok_norm(I.TokStr(parts))


def str_join(ip, sep, items):
    items = ip.iterate(items)
    parts = []
    for i, it in enumerate(items):
        if i:
            parts.append(sep)
        if isinstance(it, I.TokStr):
            parts.extend(it.parts)
        elif isinstance(it, str):
            parts.append(it)
        else:
            ip.raise_py('TypeError', 'sequence item %d: expected str instance' % i)
    return tok_norm(I.TokStr(parts))


def make_set(ip, items):
    out = set()
    for x in items:
        if isinstance(x, (Re, Cx)):
            return SymSet(ip, items)
        out.add(x)
    return out


class SymSet(object):
    """set() of symbolic numbers: iteration order unspecified, duplicates (by ==) removed.
    Modelled as the list of first occurrences; element equality forks."""
    def __init__(self, ip, items):
        self.items = []
        for x in items:
            if not ip.branch(ip.contains(self.items, x)):
                self.items.append(x)

    def pyvc_iter(self, ip):
        return list(self.items)

    def pyvc_len(self, ip):
        return len(self.items)


def hash_eq(ip, a, b):
    """hash(x) == hash(y): implied by x == y, but not the other way round - hashes collide
    (in CPython hash(-1) == hash(-2)).  Unequal values get an unconstrained answer."""
    e = ip.truth(ip.py_eq(a.v, b.v))
    if e is True:
        return True
    coll = ip.ctx.fresh_bool('hash_collision')
    return sym.Or(e, coll)


# ------------------------------------------------------------------ attribute access on builtin values

_LIST_NATIVE = {'append', 'insert', 'reverse', 'pop', 'extend', 'clear', 'copy'}


def builtin_getattr(ip, o, name):
    if isinstance(o, bool):
        o = int(o)
    if isinstance(o, (int, Fraction, Re)):
        if name == 'real':
            return o
        if name == 'imag':
            return 0
        if name == 'conjugate':
            return I.Builtin('conjugate', lambda ip, a, k: o)
        ip.raise_py('AttributeError', "number has no attribute %s" % name)
    if isinstance(o, Cx):
        if name == 'real':
            return o.re
        if name == 'imag':
            return o.im
        if name == 'conjugate':
            return I.Builtin('conjugate', lambda ip, a, k: o.conjugate())
        ip.raise_py('AttributeError', "complex has no attribute %s" % name)
    if isinstance(o, list):
        return list_method(ip, o, name)
    if isinstance(o, tuple):
        if name == 'index':
            return I.Builtin('tuple.index', lambda ip, a, k: seq_index(ip, list(o), a[0]))
        if name == 'count':
            return I.Builtin('tuple.count', lambda ip, a, k: seq_count(ip, list(o), a[0]))
        ip.raise_py('AttributeError', "tuple has no attribute %s" % name)
    if isinstance(o, dict):
        return dict_method(ip, o, name)
    if isinstance(o, str):
        return str_method(ip, o, name)
    if isinstance(o, I.TokStr):
        if name == 'lower':
            return I.Builtin('lower', lambda ip, a, k: o.lower())
        if name == 'upper':
            return I.Builtin('upper', lambda ip, a, k: o.upper())
        raise Unsupported("token string method %s" % name)
    if isinstance(o, (set, frozenset)):
        if name in ('add', 'update', 'discard', 'remove', 'copy', 'union'):
            f = getattr(o, name)
            return I.Builtin('set.' + name, lambda ip, a, k: f(*[ip.iterate(x) if isinstance(x, (list, tuple, I.IterV)) else x for x in a]))
        raise Unsupported("set method %s" % name)
    if isinstance(o, Poly1d):
        return poly_getattr(ip, o, name)
    if isinstance(o, NDArr):
        return ndarr_getattr(ip, o, name)
    if isinstance(o, CoefArr):
        if name == 'real':
            return o.real
        if name == 'imag':
            return o.imag
        if name == 'tolist':
            return I.Builtin('tolist', lambda ip, a, k: list(o.items))
        if name == 'ravel':
            return I.Builtin('ravel', lambda ip, a, k: o)
        if name == 'item':
            return I.Builtin('item', lambda ip, a, k: o.items[a[0]])
        ip.raise_py('AttributeError', "ndarray has no attribute %s" % name)
    if isinstance(o, BoolArr):
        if name == 'ravel':
            return I.Builtin('ravel', lambda ip, a, k: o.ravel())
    if isinstance(o, NativeObj):
        v = getattr(o.v, name)
        if callable(v):
            return native_call(v, '%s.%s' % (type(o.v).__name__, name))
        return _from_native(v)
    if isinstance(o, I.IterV):
        if name == '__iter__':
            return I.Builtin('__iter__', lambda ip, a, k: o)
    if isinstance(o, (I.Func, I.Builtin, I.BoundMethod)):
        if name == '__name__':
            return getattr(o, 'name', '?')
    if o is None:
        ip.raise_py('AttributeError', "'NoneType' object has no attribute '%s'" % name)
    if hasattr(o, 'pyvc_getattr'):
        return o.pyvc_getattr(ip, name)
    if isinstance(o, sym.INF_T):
        if name == 'real':
            return o
        if name == 'imag':
            return 0
    raise Unsupported("attribute %s of %s" % (name, I._tn(o)))


def seq_index(ip, items, x):
    for i, y in enumerate(items):
        if (y is x) or ip.branch(ip.py_eq(y, x)):
            return i
    ip.raise_py('ValueError', 'value is not in list')


def seq_count(ip, items, x):
    n = 0
    for y in items:
        n = sym.add(n, sym.If(ip.truth(ip.py_eq(y, x)), 1, 0))
    return n


def list_method(ip, o, name):
    if name == 'append':
        return I.Builtin('list.append', lambda ip, a, k: o.append(a[0]))
    if name == 'extend':
        return I.Builtin('list.extend', lambda ip, a, k: o.extend(ip.iterate(a[0])))
    if name == 'insert':
        def ins(ip, a, k):
            if not isinstance(a[0], int):
                raise Unsupported("symbolic insert position")
            o.insert(a[0], a[1])
        return I.Builtin('list.insert', ins)
    if name == 'reverse':
        return I.Builtin('list.reverse', lambda ip, a, k: o.reverse())
    if name == 'clear':
        return I.Builtin('list.clear', lambda ip, a, k: o.clear())
    if name == 'copy':
        return I.Builtin('list.copy', lambda ip, a, k: list(o))
    if name == 'pop':
        def pop(ip, a, k):
            try:
                return o.pop(*a)
            except IndexError:
                ip.raise_py('IndexError', 'pop from empty list')
        return I.Builtin('list.pop', pop)
    if name == 'index':
        return I.Builtin('list.index', lambda ip, a, k: seq_index(ip, o, a[0]))
    if name == 'count':
        return I.Builtin('list.count', lambda ip, a, k: seq_count(ip, o, a[0]))
    if name == 'remove':
        def rem(ip, a, k):
            i = seq_index(ip, o, a[0])
            del o[i]
        return I.Builtin('list.remove', rem)
    if name == '__iter__':
        return I.Builtin('list.__iter__', lambda ip, a, k: I.IterV(o))
    if name == '__contains__':
        return I.Builtin('list.__contains__', lambda ip, a, k: ip.contains(o, a[0]))
    if name == 'sort':
        raise Unsupported("list.sort")
    ip.raise_py('AttributeError', "'list' object has no attribute '%s'" % name)


def dict_method(ip, o, name):
    if name == 'get':
        return I.Builtin('dict.get', lambda ip, a, k: o.get(a[0], a[1] if len(a) > 1 else None))
    if name == 'items':
        return I.Builtin('dict.items', lambda ip, a, k: [(x, y) for x, y in o.items()])
    if name == 'keys':
        return I.Builtin('dict.keys', lambda ip, a, k: list(o.keys()))
    if name == 'values':
        return I.Builtin('dict.values', lambda ip, a, k: list(o.values()))
    if name == 'update':
        def upd(ip, a, k):
            for x in a:
                if isinstance(x, dict):
                    o.update(x)
                else:
                    for kk, vv in ip.iterate(x):
                        o[kk] = vv
            o.update(k)
        return I.Builtin('dict.update', upd)
    if name == 'copy':
        return I.Builtin('dict.copy', lambda ip, a, k: dict(o))
    if name == 'pop':
        def pop(ip, a, k):
            if a[0] in o:
                return o.pop(a[0])
            if len(a) > 1:
                return a[1]
            ip.raise_py('KeyError', a[0])
        return I.Builtin('dict.pop', pop)
    if name == 'setdefault':
        return I.Builtin('dict.setdefault', lambda ip, a, k: o.setdefault(a[0], a[1] if len(a) > 1 else None))
    ip.raise_py('AttributeError', "'dict' object has no attribute '%s'" % name)


def str_method(ip, s, name):
    if name == 'format':
        return I.Builtin('str.format', lambda ip, a, k: str_format(ip, s, a, k))
    if name == 'join':
        return I.Builtin('str.join', lambda ip, a, k: str_join(ip, s, a[0]))
    if hasattr(s, name):
        return native_call(getattr(s, name), 'str.' + name)
    ip.raise_py('AttributeError', "'str' object has no attribute '%s'" % name)


# ------------------------------------------------------------------ builtins

def make_builtins(ip):
    B = {}
    # exceptions
    for name, base in _EXC_TREE:
        B[name] = I.ClassV(name, [B[base]] if base else [], {}, 'builtins.' + name, is_exc=True)
    B['NotImplemented'] = I.NotImplementedV
    B['object'] = I.Builtin('object', lambda ip, a, k: I.Obj(I.ClassV('object', [], {}, 'builtins.object')))

    def warn(ip, args, kwargs):
        ip.warn_calls += 1
        return None
    B['__warn__'] = I.Builtin('warn', warn)
    B['print'] = I.Builtin('print', lambda ip, a, k: None)

    def blen(ip, args, kwargs):
        (v,) = args
        if isinstance(v, list) and any(isinstance(x, I.Guarded) for x in v):
            n = 0
            for x in v:
                n = sym.add(n, sym.If(x.guard, 1, 0) if isinstance(x, I.Guarded) else 1)
            return n
        if isinstance(v, (list, tuple, str, dict, set, frozenset, range)):
            return len(v)
        if isinstance(v, I.TokStr):
            raise Unsupported("len of token string")
        if isinstance(v, I.Obj):
            f = v.cls.lookup('__len__')
            if f is not I._MISSING:
                return ip.call(I.BoundMethod(f, v), [], {})
            ip.raise_py('TypeError', "object of type %s has no len()" % v.cls.name)
        if hasattr(v, 'pyvc_len'):
            return v.pyvc_len(ip)
        ip.raise_py('TypeError', "object of type %s has no len()" % I._tn(v))
    B['len'] = I.Builtin('len', blen)

    def brange(ip, args, kwargs):
        for a in args:
            if not isinstance(a, int):
                if isinstance(a, Re):
                    raise Unsupported("range with symbolic bound")
                ip.raise_py('TypeError', "range bound must be an integer, not %s" % I._tn(a))
        return range(*args)
    B['range'] = I.Builtin('range', brange)

    def benumerate(ip, args, kwargs):
        start = args[1] if len(args) > 1 else kwargs.get('start', 0)
        return I.IterV([(i + start, x) for i, x in enumerate(ip.iterate(args[0]))])
    B['enumerate'] = I.Builtin('enumerate', benumerate)

    def bzip(ip, args, kwargs):
        # zip advances shared iterators lazily; with fully known lists this is index arithmetic
        lists = []
        for a in args:
            if isinstance(a, I.IterV):
                lists.append(a.items[a.pos:])
            else:
                lists.append(ip.iterate(a))
        n = min(len(l) for l in lists) if lists else 0
        for a in args:
            if isinstance(a, I.IterV):
                a.pos = min(len(a.items), a.pos + n)
        return I.IterV([tuple(l[i] for l in lists) for i in range(n)])
    B['zip'] = I.Builtin('zip', bzip)

    def blist(ip, args, kwargs):
        return list(ip.iterate(args[0])) if args else []
    B['list'] = I.Builtin('list', blist, typ=lambda v: isinstance(v, list))
    B['tuple'] = I.Builtin('tuple', lambda ip, a, k: tuple(ip.iterate(a[0])) if a else (), typ=lambda v: isinstance(v, tuple))
    B['set'] = I.Builtin('set', lambda ip, a, k: make_set(ip, ip.iterate(a[0])) if a else set(), typ=lambda v: isinstance(v, (set, SymSet)))

    def bdict(ip, args, kwargs):
        d = {}
        if args:
            if isinstance(args[0], dict):
                d.update(args[0])
            else:
                for kk, vv in ip.iterate(args[0]):
                    d[kk] = vv
        d.update(kwargs)
        return d
    B['dict'] = I.Builtin('dict', bdict, typ=lambda v: isinstance(v, dict))

    def bsum(ip, args, kwargs):
        acc = args[1] if len(args) > 1 else kwargs.get('start', 0)
        for x in ip.iterate(args[0]):
            acc = ip.binop(_ADD, acc, x)
        return acc
    B['sum'] = I.Builtin('sum', bsum)

    def minmax(is_min):
        def f(ip, args, kwargs):
            key = kwargs.get('key')
            if len(args) == 1 and isinstance(args[0], list) and any(isinstance(x, I.Guarded) for x in args[0]):
                items = list(args[0])
            else:
                items = ip.iterate(args[0]) if len(args) == 1 else list(args)
            if not items:
                if 'default' in kwargs:
                    return kwargs['default']
                ip.raise_py('ValueError', 'arg is an empty sequence')
            kf = (lambda x: ip.call(key, [x], {})) if key is not None else (lambda x: x)
            if any(isinstance(x, I.Guarded) for x in items):
                # list built under if-merging: the extreme of the elements that are present, as
                # a witness m with  m <= x (>= for max) for every present x  and  m == some
                # present x.  Needs an element that is present unconditionally.
                if key is not None or not any(not isinstance(x, I.Guarded) for x in items):
                    raise Unsupported("min/max of a guarded list without an unconditional element")
                m = ip.ctx.fresh_real('min' if is_min else 'max')
                alts = []
                for x in items:
                    g, xv = (x.guard, x.value) if isinstance(x, I.Guarded) else (True, x)
                    if isinstance(xv, Cx) or not isinstance(xv, (int, Fraction, Re)):
                        raise Unsupported("min/max of a guarded list of non-real values")
                    le = sym.le(m, xv) if is_min else sym.le(xv, m)
                    ip.ctx.fact(sym.zbool(sym.Implies(g, le)))
                    alts.append(sym.And(g, sym.eq(m, xv)))
                ip.ctx.fact(sym.zbool(sym.Or(*alts)))
                return m
            best, bk = items[0], kf(items[0])
            for x in items[1:]:
                kx = kf(x)
                c = ip.compare(_LT, kx, bk) if is_min else ip.compare(_GT, kx, bk)
                if isinstance(c, bool):
                    if c:
                        best, bk = x, kx
                else:
                    best = _merge_val(ip, c, x, best)
                    bk = _merge_val(ip, c, kx, bk)
            return best
        return f
    B['min'] = I.Builtin('min', minmax(True))
    B['max'] = I.Builtin('max', minmax(False))
    B['abs'] = I.Builtin('abs', py_abs)

    def ball(ip, args, kwargs):
        return sym.And(*[ip.truth(x) for x in ip.iterate(args[0])])
    B['all'] = I.Builtin('all', ball)
    B['any'] = I.Builtin('any', lambda ip, a, k: sym.Or(*[ip.truth(x) for x in ip.iterate(a[0])]))
    B['map'] = I.Builtin('map', lambda ip, a, k: I.IterV([ip.call(a[0], list(xs), {}) for xs in zip(*[ip.iterate(x) for x in a[1:]])]))

    def bfilter(ip, args, kwargs):
        f, it = args
        out = []
        for x in ip.iterate(it):
            t = ip.truth(x) if f is None else ip.truth(ip.call(f, [x], {}))
            if ip.branch(t):
                out.append(x)
        return I.IterV(out)
    B['filter'] = I.Builtin('filter', bfilter)

    def bisinstance(ip, args, kwargs):
        v, t = args
        ts = t if isinstance(t, tuple) else (t,)
        for c in ts:
            if isinstance(c, I.ClassV):
                if isinstance(v, I.Obj) and v.cls.issub(c):
                    return True
                if hasattr(v, 'pyvc_isinstance'):
                    r = v.pyvc_isinstance(ip, c)
                    if r is not False:
                        return r
            elif isinstance(c, I.Builtin) and c.typ is not None:
                if c.typ(v):
                    return True
            elif isinstance(c, I.Opaque):
                if isinstance(v, I.Obj) or isinstance(v, (int, Fraction, Re, Cx, str, list, tuple, dict)) or v is None:
                    continue
                raise Unsupported("isinstance against opaque %s" % c.name)
            else:
                raise Unsupported("isinstance against %r" % (c,))
        return False
    B['isinstance'] = I.Builtin('isinstance', bisinstance)

    def bfloat(ip, args, kwargs):
        if not args:
            return Fraction(0)
        (v,) = args
        if isinstance(v, bool):
            return Fraction(int(v))
        if isinstance(v, int):
            return Fraction(v)
        if isinstance(v, (Fraction, Re)):
            return v
        if isinstance(v, sym.INF_T):
            return v
        if isinstance(v, str):
            s = v.strip().lower()
            if s in ('inf', '+inf', 'infinity'):
                return sym.INF
            if s in ('-inf', '-infinity'):
                return -sym.INF
            try:
                float(s)
                return Fraction(s)
            except (ValueError, ZeroDivisionError):
                ip.raise_py('ValueError', 'could not convert string to float: %r' % v)
        if isinstance(v, I.Num):
            return bfloat(ip, [v.v], {})
        if isinstance(v, I.TokStr) and len(v.parts) == 1 and isinstance(v.parts[0], I.Num):
            return bfloat(ip, [v.parts[0].v], {})
        if isinstance(v, z3.BoolRef):
            return sym.If(v, 1, 0)
        if isinstance(v, Cx):
            ip.raise_py('TypeError', "float() argument must be a string or a real number, not 'complex'")
        if v is None:
            ip.raise_py('TypeError', "float() argument must be a string or a real number, not 'NoneType'")
        raise Unsupported("float(%r)" % (v,))
    B['float'] = I.Builtin('float', bfloat, typ=lambda v: isinstance(v, Fraction) or (isinstance(v, Re) and not z3.is_int(v.t)))

    def bint(ip, args, kwargs):
        v = args[0]
        if isinstance(v, bool):
            return int(v)
        if isinstance(v, int):
            return v
        if isinstance(v, Fraction):
            return int(v)
        if isinstance(v, z3.BoolRef):
            return Re(z3.If(v, z3.IntVal(1), z3.IntVal(0)))
        if isinstance(v, str):
            try:
                return int(v, *args[1:])
            except ValueError:
                ip.raise_py('ValueError', 'invalid literal for int()')
        if isinstance(v, Re) and z3.is_int(v.t):
            return v
        raise Unsupported("int() of a symbolic real")
    B['int'] = I.Builtin('int', bint, typ=lambda v: (isinstance(v, int)) or (isinstance(v, Re) and z3.is_int(v.t)))

    def bcomplex(ip, args, kwargs):
        re_ = args[0] if args else kwargs.get('real', 0)
        im_ = args[1] if len(args) > 1 else kwargs.get('imag', 0)
        if isinstance(re_, Cx) or isinstance(im_, Cx):
            return sym.add(re_, sym.mul(Cx(0, 1), im_))
        return Cx(re_, im_)
    B['complex'] = I.Builtin('complex', bcomplex, typ=lambda v: isinstance(v, Cx))

    def bbool(ip, args, kwargs):
        return ip.truth(args[0]) if args else False
    B['bool'] = I.Builtin('bool', bbool, typ=lambda v: isinstance(v, (bool, z3.BoolRef)))

    def bstr(ip, args, kwargs):
        if not args:
            return ''
        v = args[0]
        if isinstance(v, str):
            return v
        fv = fmt_value(ip, v)
        if isinstance(fv, str):
            return fv
        if isinstance(fv, I.TokStr):
            return fv
        return I.TokStr([fv])
    B['str'] = I.Builtin('str', bstr, typ=lambda v: isinstance(v, (str, I.TokStr)))
    B['repr'] = I.Builtin('repr', bstr)
    B['hash'] = I.Builtin('hash', lambda ip, a, k: _hash(ip, a[0]))
    B['id'] = I.Builtin('id', lambda ip, a, k: id(a[0]))
    B['reversed'] = I.Builtin('reversed', lambda ip, a, k: I.IterV(list(reversed(ip.iterate(a[0])))))

    def bsorted(ip, args, kwargs):
        items = ip.iterate(args[0])
        if all(isinstance(x, (int, Fraction, str)) for x in items) and not kwargs:
            return sorted(items)
        raise Unsupported("sorted() of symbolic values")
    B['sorted'] = I.Builtin('sorted', bsorted)

    def bnext(ip, args, kwargs):
        it = args[0]
        if not isinstance(it, I.IterV):
            raise Unsupported("next() on a non-iterator")
        if it.pos < len(it.items):
            it.pos += 1
            return it.items[it.pos - 1]
        if len(args) > 1:
            return args[1]
        ip.raise_py('StopIteration')
    B['next'] = I.Builtin('next', bnext)
    B['slice'] = I.Builtin('slice', lambda ip, a, k: slice(*a), typ=lambda v: isinstance(v, slice))
    B['iter'] = I.Builtin('iter', lambda ip, a, k: I.IterV(ip.iterate(a[0])))

    def bpow(ip, args, kwargs):
        return ip.power(args[0], args[1])
    B['pow'] = I.Builtin('pow', bpow)

    def bgetattr(ip, args, kwargs):
        try:
            return ip.getattr(args[0], args[1])
        except I.PyRaise as pr:
            if pr.exc.cls.name == 'AttributeError' and len(args) > 2:
                return args[2]
            raise
    B['getattr'] = I.Builtin('getattr', bgetattr)

    def bhasattr(ip, args, kwargs):
        try:
            ip.getattr(args[0], args[1])
            return True
        except I.PyRaise as pr:
            if pr.exc.cls.name == 'AttributeError':
                return False
            raise
    B['hasattr'] = I.Builtin('hasattr', bhasattr)
    B['type'] = I.Builtin('type', lambda ip, a, k: a[0].cls if isinstance(a[0], I.Obj) else _unsup_type(a[0]))
    B['callable'] = I.Builtin('callable', lambda ip, a, k: isinstance(a[0], (I.Func, I.Builtin, I.BoundMethod, I.ClassV)))
    B['property'] = I.Builtin('property', lambda ip, a, k: I.PropertyV(*a))
    B['basestring_missing'] = None
    del B['basestring_missing']
    return B


def _unsup_type(v):
    raise Unsupported("type() of %r" % (v,))


def _hash(ip, v):
    if isinstance(v, I.Obj):
        f = v.cls.lookup('__hash__')
        if f is not I._MISSING:
            return ip.call(I.BoundMethod(f, v), [], {})
    if isinstance(v, tuple):
        # the hash of a tuple is computed from the hashes its elements have NOW: an element that is
        # a mutable object must not be looked at again when the value is compared later
        return I.HashV(tuple(_hash(ip, x) for x in v))
    return I.HashV(v)


def _merge_val(ip, c, a, b):
    """If(c, a, b) for numbers, tuples of numbers, None"""
    if a is b:
        return a
    if isinstance(a, tuple) and isinstance(b, tuple) and len(a) == len(b):
        return tuple(_merge_val(ip, c, x, y) for x, y in zip(a, b))
    if isinstance(a, (int, Fraction, Re, Cx, bool, z3.BoolRef)) and isinstance(b, (int, Fraction, Re, Cx, bool, z3.BoolRef)):
        return sym.If(c, a, b)
    # not mergeable: fork
    return a if ip.ctx.decide(c) else b


import ast as _ast
_ADD = _ast.Add()
_LT = _ast.Lt()
_GT = _ast.Gt()
