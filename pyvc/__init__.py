"""pyvc -- verification conditions for a stated subset of Python, generated from the
AST of the real source under /repo and discharged with z3 / cvc5.

Layout
  sym.py       symbolic number tower (Re, Cx) over z3 terms; boolean helpers
  conc.py      the same vocabulary over Python floats (replay / bounded stand-ins)
  ops.py       facade selecting sym or conc at run time (used by specs and contracts)
  source.py    index of /repo/svgpathtools/*.py (ast), per-function source hashes
  interp.py    symbolic executor for the subset (DESIGN.md 1.2)
  models.py    assumed models of builtins / numpy / math used by the repo code
  explore.py   path exploration by decision-prefix re-execution, obligations
  solve.py     back ends (z3, z3-nlsat, cvc5, ring) and the process pool
  dsl.py       contract context given to sidecar contracts
  check.py     CLI: run the contracts of a property, write evidence, replay
"""
