"""Transcendental functions as uninterpreted symbols plus true axiom instances (DESIGN.md 1.6).

Every application is Ackermannised at creation: one fresh real per (function, normalised
argument).  Angles are normalised to a linear combination of *angle atoms* (ring.py canonical
form with pi as an indeterminate); cos/sin of a sum are expanded by the addition formulas over
the atoms, so the facts the proofs need (cos(theta) = u1x, periodicity, parity) are reached by
rewriting rather than by quantifier instantiation.
"""
from fractions import Fraction
import z3
from . import sym
from .sym import Re
from . import ring

_PI = z3.Real('pi')


def PI():
    c = sym.CTX[0]
    if c is not None and not getattr(c, '_pi_fact', False):
        c._pi_fact = True
        c.fact(z3.And(_PI > z3.RealVal('3.1415926'), _PI < z3.RealVal('3.1415927')))
    return Re(_PI)


_ALIAS = {'arccos': 'acos', 'arcsin': 'asin', 'arctan': 'atan', 'acos': 'acos', 'asin': 'asin',
          'atan': 'atan', 'cos': 'cos', 'sin': 'sin', 'tan': 'tan', 'log': 'log'}


def _ctx():
    return sym.ctx()


def _atom_key(poly):
    return ring.key(poly)


def _cos_sin_atom(c, poly):
    """(cos, sin) of an angle given as a ring polynomial treated as one opaque atom"""
    k = ('cs', _atom_key(poly))
    if k in c.trig:
        return c.trig[k]
    # parity: canonical sign = sign of the leading coefficient
    lead = ring.leading_coeff(poly)
    if lead < 0:
        co, si = _cos_sin_atom(c, ring.scale(poly, -1))
        r = (co, sym.neg(si))
        c.trig[k] = r
        return r
    co = c.fresh_real('cos')
    si = c.fresh_real('sin')
    from . import diff
    arg = ring.to_z3(poly)
    diff.register(co.t, 'cos', arg, si.t)
    diff.register(si.t, 'sin', arg, co.t)
    c.fact(co.t * co.t + si.t * si.t == 1)
    c.fact(z3.And(co.t >= -1, co.t <= 1, si.t >= -1, si.t <= 1))
    c.trig[k] = (co, si)
    c.trig.setdefault('atoms', []).append((poly, co, si))
    return co, si


def cos_sin(x):
    """(cos x, sin x) for a real term x (concrete or Re)"""
    c = _ctx()
    PI()
    poly = ring.from_value(x)
    # split off multiples of pi/2: q * pi/2
    monos = ring.monomials(poly)
    pi_m = ring.var_monomial(_PI)
    quarter = 0
    rest = {}
    for m, coef in monos.items():
        if m == pi_m:
            # coef * pi = (2*coef) * pi/2 ; integer part of 2*coef goes to the quadrant
            q = Fraction(2) * coef
            fl = q.numerator // q.denominator
            quarter += fl
            rem = q - fl
            if rem != 0:
                rest[m] = rem / 2
        else:
            rest[m] = coef
    co, si = 1, 0
    # group: each monomial is an atom
    for m, coef in sorted(rest.items(), key=lambda kv: repr(kv[0])):
        a_co, a_si = _cos_sin_atom(c, {m: coef})
        co, si = (sym.sub(sym.mul(co, a_co), sym.mul(si, a_si)),
                  sym.add(sym.mul(si, a_co), sym.mul(co, a_si)))
    quarter %= 4
    for _ in range(quarter):
        co, si = sym.neg(si), co
    return co, si


def register_angle(angle, co, si):
    """declare that the fresh angle variable `angle` has the given cosine and sine"""
    c = _ctx()
    poly = ring.from_value(angle)
    c.trig[('cs', _atom_key(poly))] = (co, si)
    c.trig[('cs', _atom_key(ring.scale(poly, -1)))] = (co, sym.neg(si))


def apply(ip, fname, x):
    from . import interp as I
    f = _ALIAS.get(fname)
    if f is None:
        raise I.Unsupported("transcendental %s" % fname)
    if isinstance(x, sym.Cx):
        raise I.Unsupported("%s of a complex number" % f)
    c = ip.ctx
    if f == 'cos':
        return cos_sin(x)[0]
    if f == 'sin':
        return cos_sin(x)[1]
    if f == 'tan':
        co, si = cos_sin(x)
        z = sym.eq(co, 0)
        if (z is True) or (not isinstance(z, bool) and c.decide(z)):
            raise I.Undefined("tan at a pole")
        return sym.div(si, co)
    if f == 'acos':
        if not isinstance(x, Re) and x == 1:
            return 0
        bad = sym.Or(sym.lt(x, -1), sym.lt(1, x))
        if (bad is True) or (not isinstance(bad, bool) and c.decide(bad)):
            raise I.Undefined("acos outside [-1,1]")
        k = ('acos', ring.key(ring.from_value(x)))
        if k in c.trig:
            return c.trig[k]
        a = c.fresh_real('acos')
        pi = PI()
        s = sym.sqrt_w(sym.sub(1, sym.mul(x, x)), 'sin_acos')
        c.fact(z3.And(a.t >= 0, a.t <= pi.t))
        # endpoints: acos(1)=0, acos(-1)=pi, acos(0)=pi/2 and strictness in between
        xr = sym.zreal(x)
        c.fact(z3.And((xr == 1) == (a.t == 0), (xr == -1) == (a.t == pi.t),
                      (xr == 0) == (a.t == pi.t / 2), (xr > 0) == (a.t < pi.t / 2)))
        register_angle(a, x, s)
        c.trig[k] = a
        return a
    if f == 'asin':
        if not isinstance(x, Re) and x == 0:
            return 0
        bad = sym.Or(sym.lt(x, -1), sym.lt(1, x))
        if (bad is True) or (not isinstance(bad, bool) and c.decide(bad)):
            raise I.Undefined("asin outside [-1,1]")
        k = ('asin', ring.key(ring.from_value(x)))
        if k in c.trig:
            return c.trig[k]
        a = c.fresh_real('asin')
        pi = PI()
        co = sym.sqrt_w(sym.sub(1, sym.mul(x, x)), 'cos_asin')
        c.fact(z3.And(a.t >= -pi.t / 2, a.t <= pi.t / 2))
        xr = sym.zreal(x)
        c.fact(z3.And((xr == 0) == (a.t == 0), (xr > 0) == (a.t > 0)))
        register_angle(a, co, x)
        c.trig[k] = a
        return a
    if f == 'atan':
        if not isinstance(x, Re) and x == 0:
            return 0
        k = ('atan', ring.key(ring.from_value(x)))
        if k in c.trig:
            return c.trig[k]
        a = c.fresh_real('atan')
        pi = PI()
        co = c.fresh_real('cos_atan')
        si = c.fresh_real('sin_atan')
        xr = sym.zreal(x)
        c.fact(z3.And(a.t > -pi.t / 2, a.t < pi.t / 2, co.t > 0, co.t * co.t + si.t * si.t == 1,
                      si.t == xr * co.t, (xr == 0) == (a.t == 0), (xr > 0) == (a.t > 0)))
        register_angle(a, co, si)
        c.trig[k] = a
        return a
    if f == 'log':
        if not isinstance(x, Re) and x == 1:
            return 0
        bad = sym.le(x, 0)
        if (bad is True) or (not isinstance(bad, bool) and c.decide(bad)):
            raise I.Undefined("log of a non-positive number")
        lp = ring.from_value(x)
        if lp == ring.const(1):
            return 0
        k = ('log', ring.key(lp))
        if k in c.trig:
            return c.trig[k]
        r = c.fresh_real('log')
        from . import diff
        diff.register(r.t, 'log', sym.zreal(x))
        c.trig[k] = r
        c.trig.setdefault('logs', []).append((x, r))
        return r
    raise I.Unsupported("transcendental %s" % f)
