"""Vocabulary used by spec functions and contracts, with two interpretations:
symbolic (z3 terms; engine side, python3-vt) and concrete (Python floats; replay and bounded
stand-ins under /venv/bin/python where z3 is not installed)."""
import math
import cmath

try:
    import z3  # noqa
    from . import sym as _sym
    HAVE_SYM = True
except ImportError:  # concrete interpreter only
    _sym = None
    HAVE_SYM = False

TOL = [1e-9]


def _is_sym(*xs):
    if not HAVE_SYM:
        return False
    for x in xs:
        if isinstance(x, (_sym.Re, _sym.Cx, z3.ExprRef)):
            return True
        if isinstance(x, (list, tuple)) and _is_sym(*x):
            return True
    return False


def _exact(*xs):
    """no python float involved -> exact arithmetic of the sym layer applies"""
    if not HAVE_SYM:
        return False
    for x in xs:
        if isinstance(x, (float, complex)):
            return False
        if isinstance(x, (list, tuple)) and not _exact(*x):
            return False
    return True


def cx(re, im=0):
    if _exact(re, im):
        return _sym.Cx(re, im)
    return complex(re, im)


def re(z):
    if HAVE_SYM and isinstance(z, (_sym.Cx, _sym.Re)):
        return z.real
    return z.real


def im(z):
    if HAVE_SYM and isinstance(z, (_sym.Cx, _sym.Re)):
        return z.imag
    return z.imag


def scale_of(*xs):
    s = 1.0
    for x in xs:
        if isinstance(x, (list, tuple)):
            s = max(s, scale_of(*x))
        elif isinstance(x, (int, float, complex)):
            s = max(s, abs(x))
    return s


class Approx(object):
    """result of a concrete comparison, carrying the residual for reports"""
    def __init__(self, ok, resid=0.0):
        self.ok = bool(ok)
        self.resid = resid

    def __bool__(self):
        return self.ok


def eq(a, b, tol=None, scale=None):
    if _exact(a, b):
        return _sym.eq(a, b)
    tol = TOL[0] if tol is None else tol
    if isinstance(a, (list, tuple)) and isinstance(b, (list, tuple)):
        if len(a) != len(b):
            return False
        return all(eq(x, y, tol, scale) for x, y in zip(a, b))
    if isinstance(a, bool) or isinstance(b, bool):
        return bool(a) == bool(b)
    s = scale if scale is not None else scale_of(a, b)
    d = abs(complex(a) - complex(b))
    return d <= tol * s


def ne(a, b):
    if _exact(a, b):
        return _sym.ne(a, b)
    return a != b


def lt(a, b):
    if _exact(a, b):
        return _sym.lt(a, b)
    return a < b


def le(a, b, tol=None):
    if _exact(a, b):
        return _sym.le(a, b)
    tol = TOL[0] if tol is None else tol
    return a <= b + tol * scale_of(a, b)


def gt(a, b):
    return lt(b, a)


def ge(a, b, tol=None):
    return le(b, a, tol)


def And(*xs):
    if len(xs) == 1 and isinstance(xs[0], (list, tuple)):
        xs = tuple(xs[0])
    if HAVE_SYM:
        return _sym.And(*[bool(x) if isinstance(x, Approx) else x for x in xs])
    return all(bool(x) for x in xs)


def Or(*xs):
    if len(xs) == 1 and isinstance(xs[0], (list, tuple)):
        xs = tuple(xs[0])
    if HAVE_SYM:
        return _sym.Or(*xs)
    return any(bool(x) for x in xs)


def Not(x):
    if HAVE_SYM:
        return _sym.Not(x)
    return not x


def Implies(a, b):
    return Or(Not(a), b)


def Iff(a, b):
    if HAVE_SYM:
        return _sym.Iff(a, b)
    return bool(a) == bool(b)


def If(c, a, b):
    if HAVE_SYM and not isinstance(c, bool):
        return _sym.If(c, a, b)
    return a if c else b


def absv(x):
    if _exact(x):
        return _sym.absv(x)
    return abs(x)


def sqrt(x):
    if _exact(x):
        return _sym.sqrt_w(x)
    return math.sqrt(x)


def pw(x, k):
    if _exact(x):
        return _sym.pw(x, k)
    return x ** k


def norm2(z):
    """|z|^2 without a square root"""
    return re(z) * re(z) + im(z) * im(z)


def conj(z):
    return cx(re(z), -im(z))


def dot(a, b):
    return re(a) * re(b) + im(a) * im(b)


def cross(a, b):
    return re(a) * im(b) - im(a) * re(b)


def binom(n, k):
    return math.comb(n, k)
