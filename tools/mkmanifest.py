#!/usr/bin/env python3
"""Regenerates MANIFEST.json from tools/manifest_table.py (claimed checks + not_applicable)."""
import json, os, sys
HERE = os.path.dirname(os.path.dirname(os.path.abspath(__file__)))
sys.path.insert(0, os.path.join(HERE, 'tools'))
import manifest_table as T

props = [json.loads(l)['id'] for l in open(os.path.join(HERE, 'properties.jsonl'))]
checks = []
for pid in props:
    if pid in T.CHECKS:
        c = T.CHECKS[pid]
        checks.append({
            "property_id": pid,
            "quick_cmd": "python3-vt -m pyvc.check %s --tier quick" % pid,
            "thorough_cmd": "python3-vt -m pyvc.check %s --tier thorough" % pid,
            "evidence_file": "/verif/evidence/%s.json" % pid,
            "replay_cmd_template": "python3-vt -m pyvc.check --replay {path}",
            "engine": "pyvc",
            "level_claimed": {"category": "proof", "text": c['text'], "design_ref": c.get('design_ref', 'DESIGN.md section 3, ' + pid)},
            "level_note": c['note'],
            "technique": c.get('technique', "contract-based deductive verification: sidecar contracts on the real functions, VCs generated from /repo's AST by symbolic execution (pyvc), discharged by ring normaliser / z3 / z3-nlsat / cvc5"),
        })
na = [{"property_id": p, "reason": T.NOT_APPLICABLE.get(p, "check not built yet (build in progress)")} for p in props if p not in T.CHECKS]
m = {
    "version": 1,
    "setup_cmd": "./setup.sh",
    "hooks": {"guard": "SVGPATHTOOLS_VERIF",
              "enable": "no source hooks: contracts are sidecar files under /verif/contracts keyed by qualified function name; every check re-parses /repo/svgpathtools/*.py from the working tree",
              "baseline_off_cmd": "cd /repo && /venv/bin/python -m pytest -ra -q -p no:cacheprovider --timeout=900 --continue-on-collection-errors",
              "source_commits": T.HOOK_COMMITS, "add_only": True},
    "engines": [{"name": "pyvc", "path": "/verif/pyvc", "serves_properties": sorted(T.CHECKS),
                 "kind_free_text": "VC generator for a Python subset: symbolic executor over the AST of the real source, sidecar contracts, z3/cvc5/ring back ends, replay of counter-models on the real code under /venv/bin/python"}],
    "checks": checks,
    "notes": T.NOTES,
    "not_applicable": na,
}
json.dump(m, open(os.path.join(HERE, 'MANIFEST.json'), 'w'), indent=1)
print("checks:", [c['property_id'] for c in checks], "n/a:", [x['property_id'] for x in na])
