#!/bin/sh
# usage: tools/confirm_seed.sh <worktree> ; confirms in the scratch worktree that the change (applied, uncommitted)
# (1) makes demo.py fail, (2) keeps the test-suite at its baseline, (3) demo passes without the change.
# (never uses git stash: the stash is shared between the worktrees of one repository)
wt="$1"
cd "$wt" || exit 3
git diff -- svgpathtools > /tmp/confirm_$$.diff
test -s /tmp/confirm_$$.diff || { echo "no change applied"; exit 3; }
/venv/bin/python _out/demo.py >/tmp/demo_with.txt 2>&1; with=$?
names=$(/venv/bin/python -m pytest -q -p no:cacheprovider --timeout=900 -q 2>&1 | grep "^FAILED" | cut -c1-90)
git apply -R /tmp/confirm_$$.diff
/venv/bin/python _out/demo.py >/tmp/demo_without.txt 2>&1; without=$?
git apply /tmp/confirm_$$.diff
rm -f /tmp/confirm_$$.diff
echo "demo with change: exit $with ; without: exit $without ; failing tests with change: [$names]"
tail -2 /tmp/demo_with.txt
