#!/bin/sh
# usage: tools/try_seed.sh <worktree _out dir or seeded dir> <PROP> [extra check args]
# applies patch.diff to /repo, runs the property's quick check, always restores /repo
d="$1"; prop="$2"; shift 2
cd /repo || exit 3
git diff --quiet || { echo "/repo is dirty; refusing"; exit 3; }
git apply "$d/patch.diff" || { echo "patch does not apply"; exit 3; }
cd /verif && python3-vt -m pyvc.check "$prop" --no-evidence "$@" 2>&1 | grep -v "^   obl" | cut -c1-300 | tail -15
rc=$?
git -C /repo checkout -- . 
git -C /repo status --short | head -3
