#!/bin/sh
# usage: tools/try_seed.sh <dir with patch.diff> <PROP> [extra check args]
# applies patch.diff to a scratch copy of /repo's working tree (never to /repo itself), runs the
# property's quick check against that copy (--repo), removes the copy.
d="$1"; prop="$2"; shift 2
tmp=$(mktemp -d /tmp/seedrepo.XXXXXX)
cp -r /repo/svgpathtools "$tmp/"
( cd "$tmp" && git init -q . && git apply "$d/patch.diff" ) || { echo "patch does not apply"; rm -rf "$tmp"; exit 3; }
cd /verif && python3-vt -m pyvc.check "$prop" --no-evidence --repo "$tmp" "$@" 2>&1 | grep -v "^   obl" | cut -c1-300 | tail -15
rm -rf "$tmp"
