HOOK_COMMITS = []
NOTES = "See DESIGN.md. Exit codes of every check: 0 held, 1 violation (VIOLATION line), 2 undecided (no VIOLATION line), 3 checker error."
NOT_APPLICABLE = {
    'C18': "file round-trip through svgwrite/minidom/ElementTree and the file system: decided inside those libraries; no contract on /repo code can express it (DESIGN.md section 4). The d-string part is C01/C02.",
}
CHECKS = {
    'C03': {
        'text': "Every clause of the statement is a postcondition on the real method, proved for all complex control points and all real t (and all integer derivative orders n) as polynomial identities over the reals: point/poly/points/derivative against the Bernstein sum and its n-th derivative, the basis changes against each other, including numpy's leading-zero stripping of poly1d. Unbounded: no sampling, no loop bounds.",
        'note': "Floats are treated as mathematical reals, so 'numerically to within rounding' is covered only by the bounded companion (same contracts evaluated on random floats against the real library; reported under coverage.bounded, not counted as proved). numpy.poly1d is an assumed model (coefficient list).",
    },
    'C19': {
        'text': "Per-shape proof for every degree 0..8 (the range the statement gives), all values symbolic: bezier_point/bernstein against the Bernstein sum, bezier2polynomial (all branches, both orderings) against it, split_bezier/halve_bezier against the reparameterised curve, as polynomial identities; polyroots/polyroots01: for an arbitrary root list in arbitrary order (the assumed contract of numpy.roots) every isolated root that passes the filters is returned exactly once and nothing else is returned (lists of 0..8 roots); rational_limit: result equals the quotient of the first non-vanishing Taylor coefficients, ValueError only at a pole, AssertionError only for g==0 (degrees 0..4 x 0..4).",
        'note': "Relative to the assumed contract of numpy.roots (exact roots, unspecified order) and the numpy.poly1d model; floats as reals. That a_m/b_m is the limit of f/g is a mathematical fact taken as given. Shapes beyond degree 8 (rational_limit: beyond degree 4 in the quick tier) are not claimed.",
    },
    'C05': {
        'text': "Postconditions on the real Path._calc_lengths/T2t/t2T/point/iscontinuous/isclosed/continuous_subpaths, proved per path shape (1..4 segments over Line/Quadratic/Cubic; every control point, every segment length and T symbolic): T2t returns for every T in [0,1] (BugException unreachable), segment k occupies (S(k), S(k)+F(k)], first such segment, t in (0,1], never divides by a zero-length segment, t2T inverts T2t both ways, point(T) is segment k at t, point(0)/point(1)/start/end, continuity predicates are exactly the endpoint coincidences, continuous subpaths are continuous, maximal and concatenate back.",
        'note': "Per-shape (paths of 1..4 segments), not an induction over path length. Segment lengths enter through the callee contract of length(): an uninterpreted LEN >= 0 of the current control points (curved) or the closed form (lines). Floats as reals: boundary-T rounding (Path.point raising for T next to 1) is outside reach and only sampled by the bounded companion. Arc segments are not in the shape family.",
    },
    'C09': {
        'text': "Line/QuadraticBezier/CubicBezier reversed, split and cropped: the documented parameter maps as polynomial identities for all control points and all t0<t1 (split through the verified callee contract of split_bezier, crop_bezier including the interior branch); Path.reversed per shape (reversed segments in reversed order).",
        'note': "Arc.reversed/split/cropped and Path.cropped are not yet under contract (arc re-parameterisation needs the C04 uniqueness lemmas). Floats as reals. Equal length of the reversed path is not proved (length of cubic/arc is a numerical quadrature).",
    },
    'C10': {
        'text': "translate/rotate/scale/transform on Line/Quadratic/Cubic commute with point evaluation for all parameters (polynomial identities, rotation through uninterpreted cos/sin of the angle); default rotation origin point(0.5); identity matrix returns the object itself; on paths (per shape) the operation acts segment-wise and every joint that coincided still coincides - in R, and bit-exactly for closed paths in the EUF back end (operators uninterpreted, equality by determinism), which is what 'coincide exactly' means.",
        'note': "Arc segments (translate/rotate/uniform scale equivariance of the parameterisation, transform(Arc)) are not yet under contract; transform(Arc, M) raises TypeError under the installed numpy (the suite's always-failing test) and is outside the claim. Per-shape for paths (1..3 segments).",
    },
    'C13': {
        'text': "Line.radialrange: tmin,tmax in [0,1], d=|point(t)-z| and for every tau in [0,1] dmin <= |point(tau)-z| <= dmax (nonlinear real arithmetic, all inputs). bezier_radialrange (Quadratic/Cubic): the polynomial handed to the root finder is d/dt|B(t)-z|^2, the result is the best candidate among {0,1} and the returned roots with its distance, for every number of roots. Path.radialrange/closest/farthest: extreme over all segments with the index of the segment attaining it (per shape).",
        'note': "Quadratic/Cubic global optimality is relative to polyroots01 returning every critical point in [0,1] (numpy.roots exact; C19 proves no isolated root is lost) and to the extreme-value lemma, both assumed; the bounded companion compares with dense sampling. Paths per shape (1..3 segments); Arc.radialrange is not implemented in the library.",
    },
    'C08': {
        'text': "Line.bbox: containment for every t in [0,1] and every side attained at an end point (all inputs). Cubic: bezier_real_minmax closed-form branch - every parameter it evaluates lies in [0,1], interior candidates are zeros of the derivative, every zero of the derivative in (0,1) is a candidate, min/max are the extreme values over the candidates and are attained (nonlinear real arithmetic, all coefficients); degenerate branch and QuadraticBezier.bbox: containment for every t and attainment, relative to the root finder returning the vertex; bezier_bounding_box splits into the two coordinate problems; Path.bbox is the union of the segment boxes (per shape).",
        'note': "For the full-degree cubic, containment for all t follows from the proved clauses by the extreme-value lemma (assumed mathematics); the direct nonlinear proof is a thorough-tier obligation. Quadratic/degenerate cases are relative to the assumed contract of numpy.roots. Arc.bbox is not yet under contract (transcendental extremum condition). Floats as reals; the bounded companion checks containment and tightness against dense sampling.",
    },
    'C14': {
        'text': "Path.area() on closed Bezier paths equals the closed line integral of x dy computed independently from the monomial coefficients (per shape, all control points), raises exactly when the path is not closed; area(reversed) = -area, translation invariance, area(scaled(sx,sy)) = sx*sy*area, area(transform(M)) = det(M)*area, through the real operations; orientation convention pinned on the unit square; path_encloses_pt returns the parity of the crossings Path.intersect reports for the probe pt->opt; is_contained_by follows its documented decision procedure (crossing -> False, start outside the box -> False, else enclosure of the start with a probe end strictly outside the box).",
        'note': "That the line integral is the signed enclosed area (Green's theorem) and that crossing parity is enclosure (Jordan) are assumed mathematics. Enclosure clauses are relative to the contract of Path.intersect (C11/C12). Arc segments (chord approximation) are not under contract. Per shape (closed paths of 2..4 segments).",
    },
}

