HOOK_COMMITS = []
NOTES = "See DESIGN.md. Exit codes of every check: 0 held, 1 violation (VIOLATION line), 2 undecided (no VIOLATION line), 3 checker error."
NOT_APPLICABLE = {
    'C18': "file round-trip through svgwrite/minidom/ElementTree and the file system: decided inside those libraries; no contract on /repo code can express it (DESIGN.md section 4). The d-string part is C01/C02.",
}
CHECKS = {
    'C03': {
        'text': "Every clause of the statement is a postcondition on the real method, proved for all complex control points and all real t (and all integer derivative orders n) as polynomial identities over the reals: point/poly/points/derivative against the Bernstein sum and its n-th derivative, the basis changes against each other, including numpy's leading-zero stripping of poly1d. Unbounded: no sampling, no loop bounds.",
        'note': "Floats are treated as mathematical reals, so 'numerically to within rounding' is covered only by the bounded companion (same contracts evaluated on random floats against the real library; reported under coverage.bounded, not counted as proved). numpy.poly1d is an assumed model (coefficient list).",
    },
    'C19': {
        'text': "Per-shape proof for every degree 0..8 (the range the statement gives), all values symbolic: bezier_point/bernstein against the Bernstein sum, bezier2polynomial (all branches, both orderings) against it, split_bezier/halve_bezier against the reparameterised curve, as polynomial identities; polyroots/polyroots01: for an arbitrary root list in arbitrary order (the assumed contract of numpy.roots) every isolated root that passes the filters is returned exactly once and nothing else is returned (lists of 0..8 roots); rational_limit: result equals the quotient of the first non-vanishing Taylor coefficients, ValueError only at a pole, AssertionError only for g==0 (degrees 0..4 x 0..4).",
        'note': "Relative to the assumed contract of numpy.roots (exact roots, unspecified order) and the numpy.poly1d model; floats as reals. That a_m/b_m is the limit of f/g is a mathematical fact taken as given. Shapes beyond degree 8 (rational_limit: beyond degree 4 in the quick tier) are not claimed.",
    },
}
