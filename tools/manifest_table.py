HOOK_COMMITS = []
NOTES = "See DESIGN.md. Exit codes of every check: 0 held, 1 violation (VIOLATION line), 2 undecided (no VIOLATION line), 3 checker error."
NOT_APPLICABLE = {
    'C18': "file round-trip through svgwrite/minidom/ElementTree and the file system: decided inside those libraries; no contract on /repo code can express it (DESIGN.md section 4). The d-string part is C01/C02.",
}
CHECKS = {
    'C03': {
        'text': "Every clause of the statement is a postcondition on the real method, proved for all complex control points and all real t (and all integer derivative orders n) as polynomial identities over the reals: point/poly/points/derivative against the Bernstein sum and its n-th derivative, the basis changes against each other, including numpy's leading-zero stripping of poly1d. Unbounded: no sampling, no loop bounds.",
        'note': "Floats are treated as mathematical reals, so 'numerically to within rounding' is covered only by the bounded companion (same contracts evaluated on random floats against the real library; reported under coverage.bounded, not counted as proved). numpy.poly1d is an assumed model (coefficient list).",
    },
}
