#!/usr/bin/env python3
"""Developer tool (never run by a check): sample the bounded-only contracts of a property under
/venv/bin/python and print one failing input per (contract, clause), as candidate entries for
known_findings.json (to be reviewed and added by hand)."""
import json, os, subprocess, sys
HERE = os.path.dirname(os.path.dirname(os.path.abspath(__file__)))
prop = sys.argv[1]
seeds = [int(x) for x in sys.argv[2:]] or [1, 2, 3]
found = {}
for sd in seeds:
    env = dict(os.environ, PYTHONPATH=HERE + os.pathsep + '/repo')
    p = subprocess.run(['/venv/bin/python', '-m', 'pyvc.replay', '--bounded', prop, '--n', '300', '--seed', str(sd), '--all-failures'],
                       capture_output=True, text=True, env=env, cwd=HERE)
    b = json.loads(p.stdout.strip().split('\n')[-1])
    for f in b.get('failures', []):
        for cl in (f['failed'] or [f['clause']]):
            found.setdefault('%s/%s' % (f['contract'], cl), f['inputs'])
print(json.dumps(found, indent=1))
