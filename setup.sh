#!/bin/sh
# Offline setup: nothing to build; verify the tools the checks need are present.
set -e
cd "$(dirname "$0")"
python3-vt -c "import z3, sys; assert z3.get_version_string() >= '4.8', z3.get_version_string()"
test -x /venv/bin/python
/venv/bin/python -c "import numpy, scipy"
mkdir -p out evidence
echo "setup ok"
